/* LD_PRELOAD shim used by ./check: CPython 3.11/3.12 allocates and frees its 16 KiB frame
 * "data stack chunks" with mmap/munmap every time a deep recursion (Arpeggio's recursive
 * descent) crosses a chunk boundary.  In this VM each pair costs ~40us of system time and
 * does not scale across processes, which made 16 workers no faster than one.  The shim keeps
 * a small free list of such 16 KiB anonymous private mappings instead of returning them to
 * the kernel.  Blocks are zeroed before reuse, so semantics are those of a fresh mmap.
 * It changes nothing about what textX computes. */
#define _GNU_SOURCE
#include <sys/mman.h>
#include <sys/syscall.h>
#include <unistd.h>
#include <string.h>
#include <stddef.h>

#define BLK 16384
#define NCACHE 256
static void *cache[NCACHE];
static int ncache = 0;
#define NOURS 4096
static void *ours[NOURS];
static int nours = 0;

static int is_ours(void *p) { for (int i = 0; i < nours; i++) if (ours[i] == p) return 1; return 0; }

void *mmap(void *addr, size_t len, int prot, int flags, int fd, off_t off) {
    if (addr == NULL && len == BLK && prot == (PROT_READ | PROT_WRITE) &&
        (flags & (MAP_PRIVATE | MAP_ANONYMOUS)) == (MAP_PRIVATE | MAP_ANONYMOUS) && fd == -1) {
        if (ncache > 0) {
            void *p = cache[--ncache];
            memset(p, 0, BLK);
            return p;
        }
        void *p = (void *)syscall(SYS_mmap, addr, len, prot, flags, fd, off);
        if (p != MAP_FAILED && nours < NOURS) ours[nours++] = p;
        return p;
    }
    return (void *)syscall(SYS_mmap, addr, len, prot, flags, fd, off);
}

int munmap(void *addr, size_t len) {
    if (len == BLK && ncache < NCACHE && is_ours(addr)) {
        cache[ncache++] = addr;
        return 0;
    }
    if (len == BLK) { for (int i = 0; i < nours; i++) if (ours[i] == addr) { ours[i] = ours[--nours]; break; } }
    return (int)syscall(SYS_munmap, addr, len);
}

void *mmap64(void *addr, size_t len, int prot, int flags, int fd, off_t off) __attribute__((alias("mmap")));
