"""Print the wave-6 prompt: hunt only (violations that exist on the current tree, after the repairs of waves 1-4)."""
import json, sys
pid = sys.argv[1]
for l in open('/verif/properties.jsonl'):
    p = json.loads(l)
    if p['id'] == pid:
        break
wt = "/tmp/hunt6-%s" % pid
out = "/tmp/huntout6/%s" % pid
print(f"""You are helping test a verification harness for the Python library textX (a meta-language that compiles Xtext-like grammars into Arpeggio PEG parsers plus dynamic metamodel classes, and builds linked object models with scoping).

You have your own scratch git worktree of the textX repository at {wt} (work ONLY there; never touch /repo or /verif, and do not read anything under /verif). Python is /venv/bin/python. To make sure your worktree's sources are imported, run things as: cd {wt} && PYTHONPATH={wt} /venv/bin/python ...

Here is a semantic property that textX is supposed to satisfy:

  Title: {p['title']}
  Statement: {p['statement']}
  Quantified over: {p['quantifier']['text']}

TASK - hunt for violations of this property that EXIST in this tree (many defects have been repaired already, so look beyond the obvious).
Read the documentation under {wt}/docs/src/ that is relevant to this property and the code that implements it, think about documented features, options and API entry points that the existing tests hardly exercise in combination (meta-model options such as ignore_case, autokwd, memoization, skipws / ws, use_regexp_group, auto_init_attributes, textx_tools_support, global_repository, builtins / builtin_models, user classes of unusual shape, object / match / model processors, grammar imports, rule modifiers, repetition modifiers, RREL, multi-file models, the CLI and the registration API; several loads with one meta-model; several meta-models in one process; a failed load followed by a good one; loads nested inside callbacks), and try to find inputs / usage sequences on which the code violates the property as stated. Write small exhaustive loops over shapes rather than single guesses. Non-textX exceptions (AttributeError, KeyError, TypeError, RecursionError ...) escaping from a public API call on legitimate input count as well when the property speaks about the outcome of that call.
Do NOT report any of these (already known or judged out of scope): behaviour of the dependency Arpeggio alone; memoization or comment handling depending on the whitespace mode a rule was first tried under; an abstract rule alternative consisting only of match rules yielding the first one; circular grammar imports not seeing the importer's rules; literal values taking the input's letter case when ignore_case and autokwd are both on; a grammar attribute named `parent`; one user class shared by two meta-models; one attribute assigned both as containment and as reference or with two different reference target types; object spans when a suppressed match ('x'-) stands at the edge of a rule; CR/CRLF translated when a model FILE is read; built-in rule names (ID, INT ...) redefined in an imported grammar; user classes with __slots__ or frozen dataclasses losing _tx_position; the location of primitive values handed to a processor of an abstract rule; an empty input yielding '' instead of a root object; positions / file names of errors inside GRAMMAR files; recursion-depth limits (deeply nested groups, very long chains); Unicode case-folding corner cases; a cached model of a global repository keeping the model parameters of its first load; a bare CLI flag followed by the model file being taken as flag value; strings ending in a backslash.
For each violation you can demonstrate (at most 3, the most convincing first), create {out}/existing/1/ (then 2/, 3/) with:
  demo.py    - small stand-alone script, runnable as `cd {wt} && PYTHONPATH={wt} /venv/bin/python demo.py`, that exits NON-ZERO on this tree exactly because of the violation (assert the behaviour the property demands)
  notes.txt  - 3-6 lines: the minimal input / sequence, what the property demands, what happens instead, and where in the code it comes from
If you find none, write {out}/existing/none.txt saying what you tried (this is a perfectly good outcome; do not stretch the property to produce a report).
Do not modify the sources. Never use git stash. Never run find/rm with patterns on /tmp itself. Reply with a short summary: the violations found (with the one-line reproducer each), or what you tried.""")
