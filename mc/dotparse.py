"""A small recogniser for the Graphviz DOT language (the subset of the official grammar the exports can produce,
implemented from the grammar at graphviz.org/doc/info/lang.html) and for record-shape labels."""

import re


class DotError(Exception):
    pass


TOKEN = re.compile(r"""
    \s+ | //[^\n]* | /\*.*?\*/                |   # whitespace, comments
    (?P<arrow>->|--)                          |
    (?P<punct>[{}\[\];,=:])                   |
    (?P<num>-?(\.[0-9]+|[0-9]+(\.[0-9]*)?))(?![A-Za-z_]) |
    (?P<id>[A-Za-z_\x80-￿][A-Za-z_0-9\x80-￿]*) |
    (?P<str>"(?:\\.|[^"\\])*")
""", re.X | re.S)


def tokenize(text):
    pos = 0
    out = []
    n = len(text)
    while pos < n:
        if text[pos] == "<":
            # HTML string: balanced <>
            depth = 0
            j = pos
            while j < n:
                if text[j] == "<":
                    depth += 1
                elif text[j] == ">":
                    depth -= 1
                    if depth == 0:
                        break
                j += 1
            if depth != 0:
                raise DotError("unbalanced HTML string at %d" % pos)
            out.append(("html", text[pos:j + 1], pos))
            pos = j + 1
            continue
        m = TOKEN.match(text, pos)
        if not m or m.end() == pos:
            raise DotError("bad character %r at %d: ...%r" % (text[pos], pos, text[max(0, pos - 30):pos + 30]))
        for k in ("arrow", "punct", "num", "id", "str"):
            if m.group(k) is not None:
                out.append((k, m.group(k), pos))
                break
        pos = m.end()
    return out


class Parser:
    def __init__(self, text):
        self.toks = tokenize(text)
        self.i = 0
        self.nodes = {}  # id -> attrs
        self.edges = []
        self.text = text

    def peek(self):
        return self.toks[self.i] if self.i < len(self.toks) else ("eof", "", len(self.text))

    def next(self):
        t = self.peek()
        self.i += 1
        return t

    def expect(self, kind, val=None):
        t = self.next()
        if t[0] != kind or (val is not None and t[1] != val):
            raise DotError("expected %s %r, got %r at %d" % (kind, val, t[1], t[2]))
        return t

    def is_id(self, t):
        return t[0] in ("id", "num", "str", "html")

    def graph(self):
        t = self.next()
        if t[1].lower() == "strict":
            t = self.next()
        if t[0] != "id" or t[1].lower() not in ("graph", "digraph"):
            raise DotError("expected graph/digraph, got %r" % (t[1],))
        if self.is_id(self.peek()):
            self.next()
        self.expect("punct", "{")
        self.stmt_list()
        self.expect("punct", "}")
        if self.peek()[0] != "eof":
            raise DotError("text after the closing brace at %d" % self.peek()[2])

    def stmt_list(self):
        while self.peek()[1] != "}" and self.peek()[0] != "eof":
            self.stmt()
            if self.peek()[1] == ";":
                self.next()

    def stmt(self):
        t = self.peek()
        if t[0] == "id" and t[1].lower() in ("graph", "node", "edge") and self.toks[self.i + 1][1] == "[":
            self.next()
            self.attr_list()
            return
        if t[0] == "id" and t[1].lower() == "subgraph" or t[1] == "{":
            self.subgraph()
            if self.peek()[0] == "arrow":
                self.edge_rhs()
            return
        if not self.is_id(t):
            raise DotError("unexpected %r at %d" % (t[1], t[2]))
        first = self.node_id()
        if self.peek()[1] == "=":
            self.next()
            if not self.is_id(self.peek()):
                raise DotError("expected value after '=' at %d" % self.peek()[2])
            self.next()
            return
        if self.peek()[0] == "arrow":
            targets = self.edge_rhs()
            attrs = self.attr_list() if self.peek()[1] == "[" else {}
            prev = first
            for tgt in targets:
                self.edges.append((prev, tgt, attrs))
                self.nodes.setdefault(prev, {})
                if tgt is not None:
                    self.nodes.setdefault(tgt, {})
                prev = tgt
            return
        attrs = self.attr_list() if self.peek()[1] == "[" else {}
        self.nodes.setdefault(first, {}).update(attrs)

    def edge_rhs(self):
        targets = []
        while self.peek()[0] == "arrow":
            self.next()
            if self.peek()[1] == "{" or self.peek()[1].lower() == "subgraph":
                self.subgraph()
                targets.append(None)
            else:
                targets.append(self.node_id())
        return targets

    def node_id(self):
        t = self.next()
        if not self.is_id(t):
            raise DotError("expected node id, got %r at %d" % (t[1], t[2]))
        if self.peek()[1] == ":":
            self.next()
            self.next()
            if self.peek()[1] == ":":
                self.next()
                self.next()
        return t[1]

    def subgraph(self):
        if self.peek()[1].lower() == "subgraph":
            self.next()
            if self.is_id(self.peek()):
                self.next()
        self.expect("punct", "{")
        self.stmt_list()
        self.expect("punct", "}")

    def attr_list(self):
        attrs = {}
        while self.peek()[1] == "[":
            self.next()
            while self.peek()[1] != "]":
                k = self.next()
                if not self.is_id(k):
                    raise DotError("bad attribute name %r at %d" % (k[1], k[2]))
                self.expect("punct", "=")
                v = self.next()
                if not self.is_id(v):
                    raise DotError("bad attribute value %r at %d" % (v[1], v[2]))
                attrs[k[1]] = v[1]
                if self.peek()[1] in (";", ","):
                    self.next()
            self.expect("punct", "]")
        return attrs


def parse_dot(text):
    p = Parser(text)
    p.graph()
    return p


def unquote(s):
    """value of a double-quoted DOT string: only \\" is an escape of the DOT language itself"""
    assert s[0] == '"' and s[-1] == '"'
    return s[1:-1].replace('\\"', '"')


def parse_record(label):
    """record label grammar: rlabel = field ('|' field)*; field = '{' rlabel '}' | text; in text the characters
    { } | < > must be escaped with a backslash (an unescaped <...> is a port). Returns the nested field structure."""
    pos = 0
    n = len(label)

    def rlabel(depth):
        nonlocal pos
        fields = [field(depth)]
        while pos < n and label[pos] == "|":
            pos += 1
            fields.append(field(depth))
        return fields

    def field(depth):
        nonlocal pos
        while pos < n and label[pos] == " ":
            pos += 1
        if pos < n and label[pos] == "{":
            pos += 1
            inner = rlabel(depth + 1)
            if pos >= n or label[pos] != "}":
                raise DotError("record label: missing '}' at %d in %r" % (pos, label))
            pos += 1
            return inner
        out = []
        while pos < n:
            c = label[pos]
            if c == "\\":
                if pos + 1 >= n:
                    raise DotError("record label: dangling backslash in %r" % label)
                out.append(label[pos:pos + 2])
                pos += 2
            elif c in "|}":
                break
            elif c == "{":
                raise DotError("record label: unescaped '{' inside text at %d in %r" % (pos, label))
            elif c in "<>":
                raise DotError("record label: unescaped %r (port syntax) at %d in %r" % (c, pos, label))
            else:
                out.append(c)
                pos += 1
        return "".join(out)

    r = rlabel(0)
    if pos != n:
        raise DotError("record label: unexpected %r at %d in %r" % (label[pos], pos, label))
    return r
