"""E3: scope providers whose answers (resolve / Postponed) are decided by the harness."""

from textx.scoping import ModelLoader, Postponed


class HorizonExceeded(Exception):
    pass


class Sched(ModelLoader):
    """Wraps a real provider. decide(obj, attr, obj_ref, ncall) -> True to answer Postponed."""

    def __init__(self, inner, decide, horizon=10_000):
        ModelLoader.__init__(self)
        self.inner = inner
        self.decide = decide
        self.calls = 0
        self.horizon = horizon
        self.log = []

    def load_models(self, model, encoding="utf-8"):
        if isinstance(self.inner, ModelLoader):
            self.inner.load_models(model, encoding=encoding)

    def __call__(self, obj, attr, obj_ref):
        self.calls += 1
        if self.calls > self.horizon:
            raise HorizonExceeded()
        if self.decide(obj, attr, obj_ref):
            self.log.append(("P", obj_ref.obj_name))
            return Postponed()
        r = self.inner(obj, attr, obj_ref)
        self.log.append(("R", obj_ref.obj_name))
        return r


class PlainSched:
    """Same, for providers that must not look like a ModelLoader."""

    def __init__(self, inner, decide, horizon=10_000):
        self.inner = inner
        self.decide = decide
        self.calls = 0
        self.horizon = horizon
        self.log = []

    def __call__(self, obj, attr, obj_ref):
        self.calls += 1
        if self.calls > self.horizon:
            raise HorizonExceeded()
        if self.decide(obj, attr, obj_ref):
            self.log.append(("P", obj_ref.obj_name))
            return Postponed()
        self.log.append(("R", obj_ref.obj_name))
        return self.inner(obj, attr, obj_ref)
