"""Print the wave-4 prompt: one seeded change plus a hunt for violations that already exist on the unchanged tree."""
import json, sys
pid = sys.argv[1]
for l in open('/verif/properties.jsonl'):
    p = json.loads(l)
    if p['id'] == pid:
        break
wt = "/tmp/seed4-%s" % pid
out = "/tmp/seedout4/%s" % pid
print(f"""You are helping test a verification harness for the Python library textX (a meta-language that compiles Xtext-like grammars into Arpeggio PEG parsers plus dynamic metamodel classes, and builds linked object models with scoping).

You have your own scratch git worktree of the textX repository at {wt} (work ONLY there; never touch /repo or /verif, and do not read anything under /verif). Python is /venv/bin/python. To make sure your worktree's sources are imported, run things as: cd {wt} && PYTHONPATH={wt} /venv/bin/python ...

Here is a semantic property that textX is supposed to satisfy:

  Title: {p['title']}
  Statement: {p['statement']}
  Quantified over: {p['quantifier']['text']}

You have TWO tasks. Spend roughly half of your effort on each.

TASK 1 - hunt for violations that ALREADY EXIST in the unchanged tree.
Read the documentation under {wt}/docs/src/ that is relevant to this property and the code that implements it, think about documented features, options and API entry points that the existing tests hardly exercise in combination (meta-model options such as ignore_case, autokwd, memoization, skipws / ws, use_regexp_group, auto_init_attributes, textx_tools_support, global_repository, builtins / builtin_models, user classes of unusual shape, object / match / model processors, grammar imports, rule modifiers, repetition modifiers, RREL, multi-file models, the CLI and the registration API; several loads with one meta-model; several meta-models in one process; a failed load followed by a good one), and try to find inputs / usage sequences on which the UNCHANGED code violates the property as stated. Non-textX exceptions (AttributeError, KeyError, TypeError, RecursionError ...) escaping from a public API call on legitimate input count as well when the property speaks about the outcome of that call. Do not report behaviour of the dependency Arpeggio alone, and do not report these already known ones: memoization or comment handling depending on the whitespace mode a rule was first tried under; an abstract rule alternative consisting only of match rules yielding the first one; circular grammar imports not seeing the importer's rules; literal values taking the input's letter case when ignore_case and autokwd are both on.
For each existing violation you can demonstrate (at most 3, the most convincing first), create {out}/existing/1/ (then 2/, 3/) with:
  demo.py    - small stand-alone script, runnable as `cd {wt} && PYTHONPATH={wt} /venv/bin/python demo.py`, that exits NON-ZERO on the unchanged tree exactly because of the violation (assert the behaviour the property demands)
  notes.txt  - 3-6 lines: the minimal input / sequence, what the property demands, what happens instead, and where in the code it comes from
If you find none, write {out}/existing/none.txt saying what you tried.

TASK 2 - produce ONE realistic change (mutation) to the textX source under {wt}/textx/ that BREAKS this property while the code still imports and the existing test suite still gives exactly the same result as before. The unchanged tree gives '27 failed, 313 passed' with:
  cd {wt} && PYTHONPATH={wt} /venv/bin/python -m pytest -q -p no:cacheprovider --timeout=900 --continue-on-collection-errors 2>&1 | tail -3
(the 27 failures are pre-existing, caused by missing entry-point registrations in this sandbox; with your change the same 313 tests must still pass and no additional test may fail).
Requirements for the change:
- It should look like a plausible bug a maintainer could introduce (a refactoring slip, a wrong condition, a cache or state shared where it should not be, an off-by-one in position/cursor logic, a cleanup forgotten on one path, an ordering change), not sabotage.
- It must need something SPECIFIC to manifest, and that something should be a DOCUMENTED feature, option or API entry point (find it in docs/src/) that the existing tests do not combine with this property - not the most common way of using textX.
- Keep it small (a few lines).
- Write a demonstration: a small stand-alone Python script that exits 0 on the unchanged tree and non-zero (assertion failure) with the change applied, and that demonstrates a violation of the property as stated above.
Deliverables for the change, written to {out}/a/ (create the directory):
  patch.diff   - output of `git -C {wt} diff` for the change (relative to the unchanged tree)
  demo.py      - the demonstration script
  notes.txt    - 3-6 lines: what the change is, what is needed for it to manifest, and the last line of the pytest run with the change applied
Never use git stash (the stash is shared between worktrees); switch with `git -C {wt} diff > file`, `git -C {wt} checkout -- .` and `git -C {wt} apply file`. Leave the worktree clean (no modifications) at the end. Do not commit anything. Reply with a short summary: the existing violations found (with the one-line reproducer each) and the seeded change.""")
