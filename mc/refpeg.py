"""RefPEG - an independent reference semantics for the textX grammar fragment of DESIGN.md section 3.

Nothing here imports textx or arpeggio.  A grammar is a list of rules
    (name, params, body)        params: dict subset of {"skipws": bool, "ws": str}
with expression ASTs (tuples):
    ("lit", s) ("re", pattern) ("ref", name)
    ("seq", (e, ...)) ("alt", (e, ...)) ("opt", e)
    ("star", e, sep, eol) ("plus", e, sep, eol) ("ugrp", (e, ...), sep, eol)
    ("and", e) ("not", e) ("sup", e)
    ("asg", attr, op, rhs, sep, eol)     op in "=", "+=", "*=", "?="; rhs in lit / re / ref / ("link", cls, matchrule)
sep is None or a lit/re expression.  The first rule is the root; a rule named Comment is the comment rule.

Two consumers: `to_text` prints textX grammar text (what the implementation receives), and
`Interp` evaluates (grammar, config, input) -> Reject | model value.
"""

import re

BASE_RE = {
    "ID": r"[^\d\W]\w*\b",
    "BOOL": r"(True|true|False|false|0|1)\b",
    "INT": r"[-+]?[0-9]+",
    "FLOAT": r"[+-]?(\d+(\.\d*)?|\.\d+)([eE][+-]?\d+)?(?<=[\w\.])(?![\w\.])",
    "STRICTFLOAT": r"[+-]?(((\d+\.(\d*)?|\.\d+)([eE][+-]?\d+)?)|((\d+)([eE][+-]?\d+)))(?<=[\w\.])(?![\w\.])",
    "STRING": r'("(\\"|[^"])*")|(\'(\\\'|[^\'])*\')',
}
BASE_COMPOSITE = {"NUMBER": ("STRICTFLOAT", "INT"), "BASETYPE": ("NUMBER", "FLOAT", "BOOL", "ID", "STRING")}
BASE_NAMES = set(BASE_RE) | set(BASE_COMPOSITE)
DEFAULT_WS = "\t\n\r "


# ------------------------------------------------------------------------------------------
# printer


def q(s):
    return "'" + s.replace("\\", "\\\\").replace("'", "\\'").replace("\n", "\\n").replace("\t", "\\t").replace("\r", "\\r") + "'"


def q_esc(s):
    """the same literal written with an escape sequence for its first character (\\xNN / \\uNNNN)"""
    c = s[0]
    return "'" + ("\\x%02x" % ord(c) if ord(c) < 256 else "\\u%04x" % ord(c)) + q(s[1:])[1:]


def to_text(grammar):
    return "\n".join(rule_text(r) for r in grammar) + "\n"


def rule_text(rule):
    name, params, body = rule
    ps = []
    for k in ("skipws", "ws"):
        if k in params:
            v = params[k]
            if k == "skipws":
                ps.append("skipws" if v else "noskipws")
            else:
                ps.append("ws=" + q(v))
    return "%s%s: %s;" % (name, "[" + ", ".join(ps) + "]" if ps else "", expr_text(body, 0))


def mods(sep, eol):
    parts = []
    if sep is not None:
        parts.append(expr_text(sep, 9))
    if eol:
        parts.append("eolterm")
    return "[" + " ".join(parts) + "]" if parts else ""


def expr_text(e, prec):
    """prec: 0 = choice level, 1 = sequence level, 2 = repeatable level (atom)"""
    k = e[0]
    if k == "lit":
        return q_esc(e[1]) if len(e) > 2 and e[2] == "esc" else q(e[1])
    if k == "re":
        return "/" + e[1].replace("/", "\\/") + "/"
    if k == "ref":
        return e[1]
    if k == "link":
        return "[" + e[1] + ("|" + e[2] if len(e) > 2 and e[2] else "") + "]"
    if k == "seq":
        s = " ".join(expr_text(x, 2) for x in e[1])
        return "(" + s + ")" if prec >= 2 else s
    if k == "alt":
        s = " | ".join(expr_text(x, 1) for x in e[1])
        return "(" + s + ")" if prec >= 1 else s
    if k == "grp":
        return "(" + expr_text(e[1], 0) + ")"  # parentheses written explicitly around a single element (no meaning of their own)
    if k == "opt":
        return atom_text(e[1]) + "?"
    if k in ("star", "plus"):
        return atom_text(e[1]) + ("*" if k == "star" else "+") + mods(e[2], e[3])
    if k == "ugrp":
        return "(" + " ".join(expr_text(x, 2) for x in e[1]) + ")#" + mods(e[2], e[3])
    if k == "and":
        return "&" + atom_text(e[1])
    if k == "not":
        return "!" + atom_text(e[1])
    if k == "sup":
        return atom_text(e[1]) + "-"
    if k == "asg":
        return "%s%s%s%s" % (e[1], e[2], expr_text(e[3], 9), mods(e[4], e[5]))
    raise ValueError(e)


def atom_text(e):
    if e[0] in ("lit", "re", "ref"):
        return expr_text(e, 2)
    if e[0] in ("seq", "alt"):
        return "(" + expr_text(e, 0) + ")"
    # operators do not stack in the textX syntax: bracket
    return "(" + expr_text(e, 0) + ")"


# ------------------------------------------------------------------------------------------
# static analysis of the grammar (rule kinds, attribute multiplicity / type)


def walk(e):
    yield e
    k = e[0]
    if k in ("seq", "alt", "ugrp"):
        for x in e[1]:
            yield from walk(x)
    elif k in ("opt", "star", "plus", "and", "not", "sup"):
        yield from walk(e[1])


class Static:
    def __init__(self, grammar):
        self.grammar = grammar
        self.rules = {r[0]: r for r in grammar}
        self.kind = {}
        self.attrs = {}  # rule -> {attr: {"many": bool, "type": str, "bool": bool}}
        self._kinds()
        self._attrs()

    def has_asg(self, name):
        return any(x[0] == "asg" for x in walk(self.rules[name][2]))

    def refs(self, name):
        return [x[1] for x in walk(self.rules[name][2]) if x[0] == "ref"]

    def _kinds(self):
        kind = {}
        for n in self.rules:
            kind[n] = "common" if self.has_asg(n) else "match"
        changed = True
        while changed:
            changed = False
            for n in self.rules:
                if kind[n] == "match":
                    for r in self.refs(n):
                        if r in self.rules and kind[r] in ("common", "abstract"):
                            kind[n] = "abstract"
                            changed = True
                            break
        self.kind = kind

    def kind_of(self, name):
        if name in BASE_NAMES:
            return "match"
        return self.kind[name]

    def _attrs(self):
        INF = 99

        def count(e, attr):
            k = e[0]
            if k == "asg":
                if e[1] != attr:
                    return 0
                return INF if e[2] in ("+=", "*=") else 1
            if k == "seq" or k == "ugrp":
                return min(INF, sum(count(x, attr) for x in e[1]))
            if k == "alt":
                return max(count(x, attr) for x in e[1])
            if k in ("opt", "sup"):
                return count(e[1], attr)
            if k in ("star", "plus"):
                return INF if count(e[1], attr) else 0
            return 0

        for n, (name, params, body) in self.rules.items():
            d = {}
            for x in walk(body):
                if x[0] == "asg":
                    attr, op, rhs = x[1], x[2], x[3]
                    if op == "?=":
                        t = "BOOL"
                    elif rhs[0] == "ref":
                        t = rhs[1]
                    elif rhs[0] == "link":
                        t = rhs[1]
                    else:
                        t = "STRING"
                    a = d.setdefault(attr, {"many": False, "type": t, "bool": False, "link": rhs[0] == "link"})
                    if a["type"] != t:
                        a["type"] = "OBJECT"
                    if op == "?=":
                        a["bool"] = True
            for attr, a in d.items():
                a["many"] = count(body, attr) >= 2
            self.attrs[n] = d

    def default(self, rule, attr, auto_init):
        a = self.attrs[rule][attr]
        if a["many"]:
            return []
        t = a["type"]
        if t in BASE_NAMES:
            if auto_init:
                return {"ID": "", "BOOL": False, "INT": 0, "FLOAT": 0.0, "STRICTFLOAT": 0.0, "STRING": "", "NUMBER": 0.0,
                        "BASETYPE": ""}[t]
            return False if a["bool"] else None
        return None


# ------------------------------------------------------------------------------------------
# interpreter


def nstart(n):
    k = n[0]
    return n[2] if k == "t" else n[3] if k == "n" else n[4] if k == "a" else nstart(n[1])


def nend(n):
    k = n[0]
    return n[3] if k == "t" else n[4] if k == "n" else n[5] if k == "a" else nend(n[1])


class Obj:
    __slots__ = ("cls", "attrs", "start", "end", "parent")

    def __init__(self, cls, start, end):
        self.cls = cls
        self.attrs = {}
        self.start = start
        self.end = end
        self.parent = None


class Reject(Exception):
    pass


def ungroup(e):
    """drop the ('grp', x) nodes: explicit parentheses only matter to the printer"""
    if isinstance(e, tuple):
        if e and e[0] == "grp":
            return ungroup(e[1])
        return tuple(ungroup(x) for x in e)
    if isinstance(e, list):
        return [ungroup(x) for x in e]
    return e


class Interp:
    def __init__(self, grammar, skipws=True, ws=None, auto_init_attributes=True, use_regexp_group=False,
                 ignore_case=False, autokwd=False, quirks=()):
        grammar = [(r[0], r[1], ungroup(r[2])) for r in grammar]
        self.g = grammar
        self.st = Static(grammar)
        self.rules = self.st.rules
        self.cfg_skipws = skipws
        self.cfg_ws = DEFAULT_WS if ws is None else ws
        self.auto_init = auto_init_attributes
        self.use_group = use_regexp_group
        self.ignore_case = ignore_case
        self.autokwd = autokwd
        self.quirks = set(quirks)
        self._re = {}
        self.comment = self.rules.get("Comment")
        self.skips = []  # positions where a skip of whitespace/comments was attempted, with state
        self.kw_hits = []  # (end position) of every successful identifier-like literal match

    def regex(self, pat, flags=re.MULTILINE, user=True):
        """user regexes honour ignore_case; the built-in base types never do"""
        key = (pat, flags, user)
        if key not in self._re:
            f = flags | (re.IGNORECASE if (self.ignore_case and user) else 0)
            self._re[key] = re.compile(pat, f)
        return self._re[key]

    # -- whitespace / comments ---------------------------------------------------------------
    def skip_ws(self, pos, st):
        skipws, ws, eol = st
        if not skipws:
            return pos
        if eol:
            ws = ws.replace("\n", "").replace("\r", "")
        t = self.text
        n = len(t)
        while pos < n and t[pos] in ws:
            pos += 1
        return pos

    def skip(self, pos, st, in_comment=False):
        """whitespace, then comments (each followed by whitespace), before a terminal"""
        self.skips.append((pos, st))
        pos = self.skip_ws(pos, st)
        if "comment_cache_ignores_ws_mode" in self.quirks and self.comment is not None:
            # known finding (dependency): the end of the comments found at a position is cached by position only
            # and reused whenever skipws is on, whatever whitespace set / eolterm mode filled the cache
            if st[0] and pos in self.ccache:
                return self.ccache[pos]
            if in_comment:
                return pos
            start = pos
            while True:
                r = self.ev(self.comment[2], pos, st, True)
                if r is None or not r[1]:
                    break
                pos = self.skip_ws(r[0], st)
            self.ccache[start] = pos
            return pos
        if self.comment is not None and not in_comment:
            while True:
                r = self.ev(self.comment[2], pos, st, True)
                if r is None or not r[1]:
                    break
                pos = self.skip_ws(r[0], st)
        return pos

    # -- expressions -------------------------------------------------------------------------
    def ev(self, e, pos, st, inc=False):
        """-> None | (pos, nodes). nodes: ('t', text, start, end, kind, group) | ('n', rule, kids, start, end)
        | ('a', attr, op, kids, start, end) | ('s', node) separators inside assignments"""
        k = e[0]
        if k == "lit":
            p = self.skip(pos, st, inc)
            s = e[1]
            frag = self.text[p:p + len(s)]
            kwlike = re.fullmatch(r"[^\d\W]\w*", s) is not None
            ok = frag.lower() == s.lower() if self.ignore_case else frag == s
            if ok and s != "":
                end = p + len(s)
                if kwlike:
                    self.kw_hits.append(end)
                    if self.autokwd and end < len(self.text) and re.match(r"\w", self.text[end]):
                        return None
                return end, [("t", s, p, end, "lit", None)]
            if ok and s == "":
                return p, []
            return None
        if k == "re":
            p = self.skip(pos, st, inc)
            m = self.regex(e[1]).match(self.text, p)
            if not m:
                return None
            if m.end() == p:
                return p, []
            g = m.group(1) if self.regex(e[1]).groups == 1 else None
            return m.end(), [("t", m.group(), p, m.end(), "re", (g, self.regex(e[1]).groups))]
        if k == "ref":
            return self.rule(e[1], pos, st, inc)
        if k == "seq":
            out = []
            for x in e[1]:
                r = self.ev(x, pos, st, inc)
                if r is None:
                    return None
                pos = r[0]
                out += r[1]
            return pos, out
        if k == "alt":
            for x in e[1]:
                r = self.ev(x, pos, st, inc)
                if r is not None:
                    return r
            return None
        if k == "opt":
            r = self.ev(e[1], pos, st, inc)
            return r if r is not None else (pos, [])
        if k in ("star", "plus"):
            return self.rep(e[1], e[2], e[3], k == "plus", pos, st, inc, mark_sep=False)
        if k == "ugrp":
            return self.ugrp(e, pos, st, inc)
        if k == "and":
            r = self.ev(e[1], pos, st, inc)
            return None if r is None else (pos, [])
        if k == "not":
            r = self.ev(e[1], pos, st, inc)
            return (pos, []) if r is None else None
        if k == "sup":
            r = self.ev(e[1], pos, st, inc)
            return None if r is None else (r[0], [])
        if k == "asg":
            return self.asg(e, pos, st, inc)
        if k == "link":
            return self.rule(e[2] if len(e) > 2 and e[2] else "ID", pos, st, inc)
        raise ValueError(e)

    def rep(self, body, sep, eol, need_one, pos, st, inc, mark_sep):
        if eol:
            st = (st[0], st[1], True)
        out = []
        n = 0
        cur = pos
        while True:
            p = cur
            sepnodes = []
            if n and sep is not None:
                r = self.ev(sep, p, st, inc)
                if r is None:
                    break
                p = r[0]
                sepnodes = [("s", x) for x in r[1]] if mark_sep else r[1]
            r = self.ev(body, p, st, inc)
            if r is None or not r[1]:
                break
            out += sepnodes + r[1]
            cur = r[0]
            n += 1
        if need_one and n == 0:
            return None
        return cur, out

    def ugrp(self, e, pos, st, inc):
        _, elems, sep, eol = e
        if eol:
            st = (st[0], st[1], True)
        todo = list(elems)
        out = []
        cur = pos
        first = True
        while todo:
            p = cur
            sepnodes = []
            sep_failed = False
            if sep is not None and not first:
                r = self.ev(sep, p, st, inc)
                if r is None:
                    sep_failed = True
                else:
                    p, sepnodes = r
            hit = None
            any_fail = False
            for x in todo:
                r = self.ev(x, p, st, inc)
                if r is None:
                    any_fail = True
                elif r[1]:
                    hit = (x, r)
                    break
            if hit is None:
                if any_fail:
                    return None
                break
            if sep_failed:
                return None
            out += sepnodes + hit[1][1]
            cur = hit[1][0]
            todo.remove(hit[0])
            first = False
        return cur, out

    def asg(self, e, pos, st, inc):
        _, attr, op, rhs, sep, eol = e
        if op == "=":
            r = self.ev(rhs, pos, st, inc)
            if r is None:
                return None
            if not r[1]:
                return r[0], []
            return r[0], [("a", attr, "plain", r[1], nstart(r[1][0]), nend(r[1][-1]))]
        if op == "?=":
            r = self.ev(rhs, pos, st, inc)
            if r is None or not r[1]:
                return (pos, []) if r is None else (r[0], [])
            return r[0], [("a", attr, "optional", r[1], nstart(r[1][0]), nend(r[1][-1]))]
        r = self.rep(rhs, sep, eol, op == "+=", pos, st, inc, mark_sep=True)
        if r is None:
            return None
        if not r[1]:
            return r[0], []
        kids = r[1]
        return r[0], [("a", attr, "list", kids, nstart(kids[0]), nend(kids[-1]))]

    def rule(self, name, pos, st, inc):
        if name in BASE_RE:
            p = self.skip(pos, st, inc)
            m = self.regex(BASE_RE[name], user=False).match(self.text, p)
            if not m or m.end() == p:
                return None
            return m.end(), [("t", m.group(), p, m.end(), name, None)]
        if name in BASE_COMPOSITE:
            for alt in BASE_COMPOSITE[name]:
                r = self.rule(alt, pos, st, inc)
                if r is not None:
                    return r[0], [("n", name, r[1], nstart(r[1][0]), nend(r[1][-1]))]
            return None
        _, params, body = self.rules[name]
        if "skipws" in params:
            st = (params["skipws"], st[1], st[2])
        if "ws" in params:
            st = (st[0], params["ws"], st[2])
        r = self.ev(body, pos, st, inc)
        if r is None:
            return None
        if not r[1]:
            return r[0], []
        return r[0], [("n", name, r[1], nstart(r[1][0]), nend(r[1][-1]))]

    # -- entry -------------------------------------------------------------------------------
    def parse(self, text):
        self.text = text
        self.skips = []
        self.kw_hits = []
        self.ccache = {}
        st = (self.cfg_skipws, self.cfg_ws, False)
        root = self.g[0][0]
        r = self.rule(root, 0, st, False)
        if r is None:
            raise Reject()
        pos = self.skip(r[0], st)  # EOF is a terminal: whitespace and comments are skipped in front of it
        if pos != len(text):
            raise Reject()
        return r[1]

    def load(self, text):
        nodes = self.parse(text)
        if not nodes:
            return ""  # convention: the empty root model
        return self.value(nodes[0], None)

    # -- values ------------------------------------------------------------------------------
    def conv_terminal(self, t):
        _, text, s, e, kind, g = t
        if kind == "INT":
            return int(text)
        if kind in ("FLOAT", "STRICTFLOAT"):
            return float(text)
        if kind == "BOOL":
            return text == "1" or text.lower() == "true"
        if kind == "STRING":
            return text[1:-1].replace('\\"', '"') if text[0] == '"' else text[1:-1].replace("\\'", "'")
        if kind == "re" and self.use_group and g is not None and g[1] == 1:
            return g[0]
        return text

    def value(self, node, parent):
        if node[0] == "t":
            return self.conv_terminal(node)
        _, name, kids, s, e = node
        kind = self.st.kind_of(name)
        if kind == "match":
            return self.match_value(node)
        if kind == "abstract":
            if len(kids) == 1:
                return self.value(kids[0], parent)
            for k in kids:
                if k[0] == "n" and self.st.kind_of(k[1]) != "match":
                    return self.value(k, parent)
            if "abstract_first_rule_ref" in self.quirks:
                # known finding: the implementation returns the value of the first rule reference of the
                # matched alternative even when it is a match rule (the other matches are dropped)
                for k in kids:
                    if k[0] == "n":
                        return self.value(k, parent)
            return "".join(self.raw(k) for k in kids)
        o = Obj(name, s, e)
        o.parent = parent
        for a in self.st.attrs[name]:
            o.attrs[a] = self.st.default(name, a, self.auto_init)
        for k in kids:
            if k[0] == "a":
                self.assign(o, k)
            elif k[0] == "n":
                pass  # a rule matched without assignment inside a common rule: used for parsing only
        return o

    def raw(self, node):
        """the matched text of a node (terminals concatenated)"""
        if node[0] == "t":
            return node[1]
        if node[0] == "s":
            return self.raw(node[1])
        return "".join(self.raw(k) for k in node[2 if node[0] == "n" else 3])

    def match_value(self, node):
        if node[0] == "t":
            return self.conv_terminal(node)
        kids = node[2]
        if len(kids) == 1:
            return self.match_value(kids[0])
        return "".join(str(self.match_value(k)) for k in kids)

    def assign(self, o, a):
        _, attr, op, kids, s, e = a
        info = self.st.attrs[o.cls][attr]
        if op == "optional":
            o.attrs[attr] = True
            return
        vals = [self.value(k, o) for k in kids if k[0] != "s"] if op == "list" else [self.value(kids[0], o)]
        if info["many"]:
            o.attrs[attr] = o.attrs[attr] + vals
        else:
            o.attrs[attr] = vals[0]


def dump(v):
    """canonical, JSON-able dump of a reference model value"""
    if isinstance(v, Obj):
        return {"cls": v.cls, "attrs": {k: dump(x) for k, x in sorted(v.attrs.items())}}
    if isinstance(v, list):
        return [dump(x) for x in v]
    if isinstance(v, bool):
        return ["bool", v]
    if isinstance(v, int):
        return ["int", v]
    if isinstance(v, float):
        return ["float", repr(v)]
    if v is None:
        return None
    return ["str", v]
