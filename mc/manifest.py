"""Regenerate /verif/MANIFEST.json from the property modules that exist (python -m mc.manifest)."""

import importlib
import json
import os

VERIF = os.path.dirname(os.path.dirname(os.path.abspath(__file__)))

ENGINES = [
    {"name": "E1-bounded-exhaustive-inputs", "path": "mc/refpeg.py, mc/gramgen.py",
     "kind_free_text": "exhaustive enumeration of grammars x inputs x configurations against an independent reference PEG interpreter or a dedicated small reference"},
    {"name": "E2-explicit-state-histories", "path": "mc/props/c26.py, mc/props/c14.py, mc/props/c16.py, mc/props/c17.py",
     "kind_free_text": "breadth-first search over operation histories of the real API with canonicalised states and a reference model"},
    {"name": "E3-environment-answer-schedules", "path": "mc/props/c08.py, mc/props/c09.py",
     "kind_free_text": "every schedule of Postponed/resolve answers a scope provider can give, deviation-bounded then complete"},
    {"name": "E4-fault-points", "path": "mc/props/c15.py, mc/props/c18.py, mc/props/c31.py",
     "kind_free_text": "one failing run per injection point (k-th callback / write / file / phase), post-state predicates"},
]


def main():
    props = [json.loads(l) for l in open(os.path.join(VERIF, "properties.jsonl"))]
    checks, na = [], []
    serves = {}
    for p in props:
        pid = p["id"]
        path = os.path.join(VERIF, "mc", "props", pid.lower() + ".py")
        if not os.path.exists(path):
            na.append({"property_id": pid, "reason": "check not built yet in this round (design in DESIGN.md section 4); not claimed"})
            continue
        mod = importlib.import_module("mc.props." + pid.lower())
        if getattr(mod, "NOT_APPLICABLE", None):
            na.append({"property_id": pid, "reason": mod.NOT_APPLICABLE})
            continue
        checks.append({
            "property_id": pid,
            "quick_cmd": "./check %s --tier quick" % pid,
            "thorough_cmd": "./check %s --tier thorough" % pid,
            "evidence_file": "/verif/evidence/%s.json" % pid,
            "replay_cmd_template": "./check %s --replay {path}" % pid,
            "engine": getattr(mod, "ENGINE", "E1-bounded-exhaustive-inputs"),
            "level_claimed": {
                "category": mod.LEVEL,
                "text": mod.CLAIM,
                "design_ref": "DESIGN.md section 4, " + pid,
            },
            "level_note": mod.NOTE,
            "technique": mod.TECHNIQUE,
        })
        serves.setdefault(getattr(mod, "ENGINE", "E1-bounded-exhaustive-inputs"), []).append(pid)
    engines = []
    for e in ENGINES:
        e = dict(e)
        e["serves_properties"] = serves.get(e["name"], [])
        engines.append(e)
    man = {
        "version": 1,
        "setup_cmd": "mkdir -p .work evidence replays; gcc -O2 -shared -fPIC -o native/chunkcache.so native/chunkcache.c; /venv/bin/python -m compileall -q mc >/dev/null 2>&1; true",
        "hooks": {
            "guard": "TEXTX_VERIF",
            "enable": "no hooks: checks import textX from /repo's working tree (PYTHONPATH=/repo) and drive it through public callbacks and module attributes; the guard name is reserved and unused",
            "baseline_off_cmd": "cd /repo && /venv/bin/python -m pytest -ra -q -p no:cacheprovider --timeout=900 --continue-on-collection-errors",
            "source_commits": [],
            "add_only": True,
        },
        "engines": engines,
        "checks": checks,
        "not_applicable": na,
        "notes": "All checks decide by exhaustive enumeration within stated bounds on the real implementation; see DESIGN.md. "
                 "Genuine defects found are repaired by 'fix:' commits in /repo or listed in known_findings.json.",
    }
    with open(os.path.join(VERIF, "MANIFEST.json"), "w") as f:
        json.dump(man, f, indent=1)
    print("checks=%d not_applicable=%d" % (len(checks), len(na)))


if __name__ == "__main__":
    main()
