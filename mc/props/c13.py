"""C13 - object processors run once each, bottom-up, on a fully linked model.

E1 with a dedicated reference: all forests of Node/Leaf objects (recursive + abstract containment, single and list
containment attributes) up to N objects with one reference, generated and user classes, one- and two-file models;
recording processors on every rule; replacement variants (own-rule / abstract-rule processor returning a marker, 0 or '').
Oracle: tree walk - one call per object and rule, own before abstract, children before container, every processor call
after the last scope-provider call and the last user __init__, replacement visible in the containing attribute.
"""

import os

from mc import trees, core
from mc.core import Unit, watchdog

ID = "C13"
LEVEL = "exploration"
ENGINE = "E1-bounded-exhaustive-inputs"
TECHNIQUE = "bounded-exhaustive enumeration of containment trees x references x class kinds x replacement variants with recording processors/providers; tree-walk reference"
CLAIM = ("Every forest up to N objects, every reference, user classes on/off, single- and two-file models and 9 replacement variants are loaded "
         "with recording object processors on every rule, a recording scope provider and a recording user __init__; call multiset, "
         "own-before-abstract, child-before-container, 'all processors after linking and initialisation' and the replacement of objects by "
         "non-None (including falsy) return values are compared with a walk over the generated tree.")
NOTE = "Trusted: the recording callbacks and the tree walk. Sibling order is not constrained by the property and not checked."

GRAMMAR2 = """
Model: imports*=Import items*=Item;
Import: 'import' importURI=STRING;
Item: Node | Leaf;
Node: 'n' name=ID ('->' up=[Item])? ('h' head=Item)? '{' items*=Item '}';
Leaf: 'l' name=ID ('->' up=[Item])? (':' val=INT)?;
"""

LOG = []


class Marker:
    def __init__(self, tag):
        self.tag = tag


class Leaf:
    def __init__(self, parent=None, name=None, up=None, val=None):
        LOG.append(("init", name))
        self.parent = parent
        self.name = name
        self.up = up
        self.val = val


VARIANTS = ["none", "Leaf->marker", "Leaf->0", "Item->marker", "Node->''", "Leaf+Item", "Leaf->marker(o1 only)",
            # the same with every processor decorated by textx.textxerror_wrap (the documented way to get located errors)
            "Leaf->marker(wrapped)", "Leaf+Item(wrapped)"]
_S = {}


def mm_for(user, two):
    key = (user, two)
    if key not in _S:
        from textx import metamodel_from_str

        _S[key] = metamodel_from_str(GRAMMAR2 if two else trees.GRAMMAR, classes=[Leaf] if user else None)
    return _S[key]


def replacement(variant, rule, obj):
    """value returned by the processor of `rule` for obj under the variant (None = no replacement)"""
    name = getattr(obj, "name", None)
    variant = variant.replace("(wrapped)", "")
    if variant == "Leaf->marker" and rule == "Leaf":
        return Marker(("Leaf", name))
    if variant == "Leaf->0" and rule == "Leaf":
        return 0
    if variant == "Item->marker" and rule == "Item":
        return Marker(("Item", name))
    if variant == "Node->''" and rule == "Node":
        return ""
    if variant == "Leaf+Item" and rule in ("Leaf", "Item"):
        return Marker((rule, name))
    if variant == "Leaf->marker(o1 only)" and rule == "Leaf" and name == "o1":
        return Marker(("Leaf", name))
    return None


def expected_value(variant, kind, name):
    """what the containing attribute must hold after processing for an object of kind n/l"""
    cls = "Node" if kind == "n" else "Leaf"
    variant = variant.replace("(wrapped)", "")
    own = {"Leaf->marker": "Leaf", "Leaf->0": "Leaf", "Node->''": "Node", "Leaf+Item": "Leaf", "Leaf->marker(o1 only)": "Leaf"}.get(variant)
    if own == cls and not (variant == "Leaf->marker(o1 only)" and name != "o1"):
        if variant == "Leaf->0":
            return ("value", 0)
        if variant == "Node->''":
            return ("value", "")
        return ("marker", (cls, name))
    if variant in ("Item->marker", "Leaf+Item"):
        return ("marker", ("Item", name))
    return ("object", name)


def describe(v):
    if isinstance(v, Marker):
        return ("marker", v.tag)
    if hasattr(type(v), "_tx_attrs") or isinstance(v, Leaf):
        return ("object", getattr(v, "name", None))
    return ("value", v)


def run_case(f, ref, user, variant, two=None):
    """two: None or the number of leading top-level trees that go to the imported file lib.m"""
    from textx.scoping.providers import PlainName, PlainNameImportURI

    del LOG[:]
    nm = trees.names(f)
    kinds = dict(trees.flatten(f))
    mm = mm_for(user, two is not None)

    def proc(rule):
        def p(obj):
            LOG.append(("proc", rule, getattr(obj, "name", "<model>")))
            return replacement(variant, rule, obj)
        return p

    if variant.endswith("(wrapped)"):
        from textx import textxerror_wrap

        mm.register_obj_processors({r: textxerror_wrap(proc(r)) for r in ("Model", "Item", "Node", "Leaf")})
    else:
        mm.register_obj_processors({r: proc(r) for r in ("Model", "Item", "Node", "Leaf")})
    inner = PlainNameImportURI() if two is not None else PlainName()

    class Prov(type(inner)):
        def __call__(self, obj, attr, obj_ref):
            LOG.append(("provider", obj_ref.obj_name))
            return super().__call__(obj, attr, obj_ref)
    prov = Prov()
    mm.register_scope_providers({"*.*": prov})
    if two is None:
        text = trees.render(f, nm, ref)
        m = mm.model_from_str(text)
        roots = [(m, f, ())]
    else:
        d = core.rundir()
        sub = os.path.join(d, "c13-%d" % os.getpid())
        os.makedirs(sub, exist_ok=True)
        lib, main = f[:two], f[two:]
        libtext = trees.render(f, nm, ref)  # placeholder, replaced below
        # render both parts with global names: paths in `f` index the concatenation
        libtext = " ".join(trees._render(t, (i,), nm, ref, None, " ") for i, t in enumerate(f) if i < two)
        maintext = 'import "lib.m" ' + " ".join(trees._render(t, (i,), nm, ref, None, " ") for i, t in enumerate(f) if i >= two)
        with open(os.path.join(sub, "lib.m"), "w") as fh:
            fh.write(libtext)
        text = maintext + "  ||  lib.m: " + libtext
        m = mm.model_from_str(maintext, file_name=os.path.join(sub, "main.m"))
        roots = [(m, f, ())]
    obs = {"text": text, "variant": variant, "user": user, "log": list(LOG)}
    bad = []
    procs = [e for e in LOG if e[0] == "proc"]
    # 1. multiset of calls
    exp_calls = [("proc", "Model", "<model>")] * (2 if two is not None else 1)
    for p, k in kinds.items():
        exp_calls.append(("proc", "Node" if k == "n" else "Leaf", nm[p]))
        exp_calls.append(("proc", "Item", nm[p]))
    if sorted(procs) != sorted(exp_calls):
        bad.append(("calls", sorted(exp_calls), sorted(procs)))
    # 2. ordering
    pos = {}
    for i, e in enumerate(LOG):
        pos.setdefault(e, i)
    last_link = max([i for i, e in enumerate(LOG) if e[0] in ("provider", "init")], default=-1)
    first_proc = min([i for i, e in enumerate(LOG) if e[0] == "proc"], default=10 ** 9)
    if last_link > first_proc:
        bad.append(("processor before linking/initialisation finished", LOG[first_proc], LOG[last_link]))
    if user:
        inits = sorted(e[1] for e in LOG if e[0] == "init")
        if inits != sorted(nm[p] for p, k in kinds.items() if k == "l"):
            bad.append(("user __init__ calls", inits))
    for p, k in kinds.items():
        own = ("proc", "Node" if k == "n" else "Leaf", nm[p])
        ab = ("proc", "Item", nm[p])
        if own in pos and ab in pos and pos[own] > pos[ab]:
            bad.append(("abstract before own", nm[p]))
        for q in trees.child_paths(f, p):
            cown = ("proc", "Node" if kinds[q] == "n" else "Leaf", nm[q])
            for mine in (own, ab):
                if cown in pos and mine in pos and pos[cown] > pos[mine]:
                    bad.append(("container before child", nm[p], nm[q]))
    # 3. replacement visible in the containing attribute
    def walk(container_obj, forest_paths):
        for q in forest_paths:
            holder = container_obj
            e = q[-1]
            try:
                v = holder.head if e == "h" else holder.items[e if two is None or len(q) > 1 or e < two else e - two]
            except Exception as ex:
                bad.append(("navigation", q, repr(ex)))
                continue
            want = expected_value(variant, kinds[q], nm[q])
            got = describe(v)
            if got != want:
                bad.append(("attribute value", nm[q], want, got))
            if got[0] == "object":
                walk(v, trees.child_paths(f, q))
    if two is None:
        walk(m, trees.child_paths(f, ()))
    else:
        walk(m, [(i,) for i in range(two, len(f))])
        libm = [x for x in m._tx_model_repository.all_models if x is not m]
        if len(libm) != 1:
            bad.append(("imported models", len(libm)))
        else:
            walk(libm[0], [(i,) for i in range(two)])
    obs["failures"] = bad[:4]
    return not bad, obs


def work(arg):
    fs, with_refs, twofile = arg
    u = Unit()
    for f in fs:
        paths = [p for p, k in trees.flatten(f)]
        refs = [None] + ([(a, b) for a in paths for b in paths] if with_refs else ([(paths[-1], paths[0])] if len(paths) > 1 else []))
        for ref in refs:
            for user in (False, True):
                for variant in VARIANTS:
                    splits = [None]
                    if twofile and len(f) >= 2:
                        splits += [k for k in range(1, len(f))]
                    for two in splits:
                        if two is not None and ref is not None and not (ref[0][0] >= two):
                            continue  # only references from the main file (it imports lib, not vice versa)
                        cid = [f, ref, user, variant, two]
                        try:
                            with watchdog(20):
                                ok, obs = run_case(f, ref, user, variant, two)
                        except Exception as e:
                            import traceback

                            ok, obs = False, {"text": trees.render(f, trees.names(f), ref), "failures": [("exception", "%s: %s" % (type(e).__name__, e), traceback.format_exc()[-300:])]}
                        u.case(cid, nontrivial=len(paths) > 1, sample={k: obs[k] for k in ("text", "variant", "user")} if variant != "none" and len(paths) > 2 and "variant" in obs else None)
                        u.count("variant:" + variant)
                        if not ok:
                            u.fail(cid, {"forest": f, "ref": ref, "user": user, "variant": variant, "two": two}, sig=str(obs["failures"][0][0]) + " " + variant,
                                   what="%s | variant=%s user=%s two=%s :: %s" % (obs["text"], variant, user, two, obs["failures"][:2]))
    return u


def tup(x):
    return tuple(tup(i) for i in x) if isinstance(x, (list, tuple)) else x


# ---- grammar-import family: the rules of the objects live in different grammar files
GI_RULES = {"M": "Model: xs*=X;", "X": "X: 'x' name=ID ('{' ys*=Y '}')? (z=Z)?;", "Y": "Y: 'y' name=ID (z=Z)? ('[' ys*=Y ']')?;", "Z": "Z: 'z' name=ID;"}
# which file defines which rule, and the imports of each file (no import cycles: C25 owns those); main.tx always defines Model
GI_LAYOUTS = {
    "single": ({"main": "MXYZ"}, {}),
    "direct": ({"main": "M", "a": "X", "b": "YZ"}, {"main": ["a", "b"], "a": ["b"]}),
    "chain": ({"main": "M", "a": "X", "b": "YZ"}, {"main": ["a"], "a": ["b"]}),
    "chain3": ({"main": "M", "a": "X", "b": "Y", "c": "Z"}, {"main": ["a"], "a": ["b", "c"], "b": ["c"]}),
}
# the root rule is an alias of an abstract rule of an imported grammar: the root OBJECT is of a rule of a directly / an indirectly imported grammar
GI_RULES.update({"R": "Model: Wrap;", "W": "Wrap: X | Z;"})
GI_LAYOUTS.update({
    "root-direct": ({"main": "R", "a": "WXYZ"}, {"main": ["a"]}),
    "root-indirect": ({"main": "R", "a": "W", "b": "XYZ"}, {"main": ["a"], "a": ["b"]}),
    "root-indirect3": ({"main": "R", "a": "W", "b": "X", "c": "YZ"}, {"main": ["a"], "a": ["b", "c"], "b": ["c"]}),
})
GI_ROOT_INPUTS = ["x a", "x a { y b }", "z d", "x a { y b z c y i [ y e [ y j z k ] ] } z q"]
GI_INPUTS = ["x a", "x a { y b }", "x a { y b z c } z d", "x a { y b [ y e z f ] } x g z h", "x a { y b z c y i [ y e [ y j z k ] ] }"]


def run_import_case(layout, text):
    from textx import metamodel_from_file

    files, imports = GI_LAYOUTS[layout]
    d = os.path.join(core.rundir(), "c13g-%d" % os.getpid(), layout)
    os.makedirs(d, exist_ok=True)
    for fn, rules in files.items():
        with open(os.path.join(d, fn + ".tx"), "w") as f:
            f.write("".join("import %s\n" % i for i in imports.get(fn, [])) + "\n".join(GI_RULES[r] for r in rules) + "\n")
    mm = metamodel_from_file(os.path.join(d, "main.tx"))
    log = []

    def rec(rule):
        def p(o):
            log.append((rule, getattr(o, "name", None), [getattr(c, "name", None) for c in kids(o)]))
        return p

    def kids(o):
        out = []
        for a in ("xs", "ys"):
            out += list(getattr(o, a, []) or [])
        if getattr(o, "z", None) is not None:
            out.append(o.z)
        return out
    mm.register_obj_processors({r: rec(r) for r in (("X", "Y", "Z") if layout.startswith("root-") else ("Model", "X", "Y", "Z"))})
    m = mm.model_from_str(text)
    # expected: every object exactly once, children before their container
    exp = []

    def walk(o, rule):
        for c in kids(o):
            walk(c, type(c).__name__)
        exp.append((rule, getattr(o, "name", None)))
    if layout.startswith("root-"):
        walk(m, type(m).__name__)  # (no processor is registered for the abstract root rule: the root is not stored in an attribute)
    else:
        walk(m, "Model")
    got = [(r, n) for r, n, _ in log]
    bad = []
    if sorted(got, key=str) != sorted(exp, key=str):
        bad.append(("processor calls", "missing %s" % sorted(set(exp) - set(got), key=str), "unexpected or repeated %s" % sorted([g for g in got if got.count(g) > 1 or g not in exp], key=str)))
    pos = {g: i for i, g in enumerate(got)}
    for r, n, ks in log:
        for k in ks:
            kk = [g for g in got if g[1] == k]
            if kk and pos[kk[0]] > pos[(r, n)]:
                bad.append(("container processed before its child", n, k))
    return not bad, {"layout": layout, "grammar_files": {k: v for k, v in files.items()}, "imports": imports, "input": text, "calls": got, "failures": bad[:3]}


# ---- mixed family: an abstract rule whose alternatives are a common rule and base types / match rules ------------------
# Decimal: a match rule named like the Python class its processor returns (the documented 'own base type' recipe)
MIXED_GRAMMAR = ("Model: vals*=Val[','] ('one' one=Val)?; Val: Sub | Decimal | FLOAT | STRING | Word; Sub: 'sub' name=ID; Word: /w\\d/; "
                 "Decimal: /d\\d+\\.\\d+/;")
MIXED_ELEMS = ["sub a", "1.5", '"x"', "w7", "d2.50"]
MIXED_PROCS = [("Val",), ("Sub",), ("Val", "Sub"), ("Val", "Sub", "Word"), ("Val", "FLOAT"), ("Decimal",), ("Val", "Decimal")]


def run_mixed_case(elems, procs, replace):
    from textx import metamodel_from_str

    mm = metamodel_from_str(MIXED_GRAMMAR)
    log = []

    def rec(rule):
        def p(v):
            log.append((rule, getattr(v, "name", float(v) if rule == "FLOAT" else v)))
            if replace and rule == "Val":
                return Marker(("Val", getattr(v, "name", v)))
            if rule == "FLOAT":
                return float(v)  # a processor of a match rule / base type is a converter: its result is the value
            if rule == "Word":
                return v
            if rule == "Decimal":
                import decimal

                return decimal.Decimal(v[1:]) if isinstance(v, str) else v
        return p
    mm.register_obj_processors({r: rec(r) for r in procs})
    text = " , ".join(elems) + " one " + elems[0]
    obs = {"grammar": MIXED_GRAMMAR, "input": text, "processors_on": list(procs), "Val_processor_replaces": replace}
    m = mm.model_from_str(text)
    import decimal

    values = {"sub a": "a", "1.5": 1.5, '"x"': "x", "w7": "w7", "d2.50": decimal.Decimal("2.50") if "Decimal" in procs else "d2.50"}
    bad = []
    if "Decimal" in procs:
        n = sum(1 for e in list(elems) + [elems[0]] if e == "d2.50")
        if [x for x in log if x[0] == "Decimal"] != [("Decimal", "d2.50")] * n:
            bad.append(("calls of the match rule Decimal's processor", n, [x for x in log if x[0] == "Decimal"]))
        if "Val" not in procs or not replace:
            cur = [v for v in list(m.vals) + [m.one] if isinstance(v, (decimal.Decimal,))]
            if len(cur) != n or any(v != decimal.Decimal("2.50") for v in cur):
                bad.append(("Decimal values in the model", n, cur))
    if "Val" in procs:
        want = [("Val", values[e]) for e in list(elems) + [elems[0]]]
        got = [x for x in log if x[0] == "Val"]
        if sorted(map(str, got)) != sorted(map(str, want)):
            bad.append(("calls of the abstract rule's processor", want, got))
        if replace:
            cur = [describe(v) for v in list(m.vals) + [m.one]]
            if cur != [("marker", w) for w in want]:
                bad.append(("replacement by the abstract rule's processor", cur))
    if "Sub" in procs:
        n = sum(1 for e in list(elems) + [elems[0]] if e == "sub a")
        if sum(1 for x in log if x[0] == "Sub") != n:
            bad.append(("calls of Sub's processor", n, [x for x in log if x[0] == "Sub"]))
        if "Val" in procs:
            seq = [x for x in log if x[1] == "a"]
            if any(seq[i][0] == "Val" and seq[i + 1][0] == "Sub" and i % 2 == 0 for i in range(len(seq) - 1)):
                bad.append(("abstract rule's processor before the object's own", seq))
    obs["log"] = [list(map(str, x)) for x in log]
    obs["failures"] = bad[:3]
    return not bad, obs


def work_mixed(arg):
    u = Unit()
    for elems, procs, replace in arg:
        try:
            with watchdog(20):
                ok, obs = run_mixed_case(elems, procs, replace)
        except Exception as e:
            ok, obs = False, {"input": " , ".join(elems), "processors_on": list(procs), "failures": [("exception", "%s: %s" % (type(e).__name__, e))]}
        u.case(["mixed", list(elems), list(procs), replace], nontrivial=True, sample=obs if ok else None)
        u.count("mixed abstract rule family")
        if not ok:
            u.fail(["mixed", list(elems), list(procs), replace], {"mixed": [list(elems), list(procs), replace]}, sig="mixed %s %s" % (obs["failures"][0][0], procs),
                   what=str(obs)[:500])
    return u


def work_import(arg):
    u = Unit()
    for layout, text in arg:
        try:
            with watchdog(20):
                ok, obs = run_import_case(layout, text)
        except Exception as e:
            ok, obs = False, {"layout": layout, "input": text, "failures": [("exception", "%s: %s" % (type(e).__name__, e))]}
        u.case(["grammar-imports", layout, text], nontrivial=layout != "single", sample=obs if ok else None)
        u.count("grammar-import layout:" + layout)
        if not ok:
            u.fail(["grammar-imports", layout, text], {"gi": [layout, text]}, sig="grammar imports %s %s" % (layout, obs["failures"][0][0]), what=str(obs)[:600])
    return u


def run(ctx):
    plan = [(1, True), (2, True), (3, False)] if ctx.tier == "quick" else [(1, True), (2, True), (3, True), (4, False)]
    units = []
    nf = 0
    for n, wr in plan:
        fs = list(trees.forests(n))
        nf += len(fs)
        units += [(fs[i:i + 3], wr, True) for i in range(0, len(fs), 3)]
    ctx.pmap(work, units)
    ctx.pmap(work_import, [[(l, t)] for l in GI_LAYOUTS for t in (GI_ROOT_INPUTS if l.startswith("root-") else GI_INPUTS)])
    import itertools

    mixed = [(el, pr, rp) for n in (1, 2) for el in itertools.product(MIXED_ELEMS, repeat=n) for pr in MIXED_PROCS for rp in (False, True)]
    ctx.pmap(work_mixed, [mixed[i:i + 20] for i in range(0, len(mixed), 20)])
    return {
        "rule": "case = (forest, optional reference, user class on/off, replacement variant of %s, one file or split into lib.m + main.m at every "
                "top-level position); plan (objects, all references?) = %s; non-trivial = more than one object; plus the grammar-import family: the rules "
                "Model/X/Y/Z spread over grammar files in the layouts %s x %d inputs" % (VARIANTS, plan, list(GI_LAYOUTS), len(GI_INPUTS)),
        "exhaustive": True, "forests": nf,
    }, ["a processor call is identified by (rule, object name); names are unique"]


def replay(p):
    if "gi" in p:
        return run_import_case(*p["gi"])
    if "mixed" in p:
        return run_mixed_case(tuple(p["mixed"][0]), tuple(p["mixed"][1]), p["mixed"][2])
    return run_case(tup(p["forest"]), tup(p["ref"]) if p["ref"] else None, p["user"], p["variant"], p["two"])
