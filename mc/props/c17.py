"""C17 - multi-file models load each file once and share element identity.

E2/E1: all import digraphs over n model files (self imports, cycles, diamonds) x ImportURI-based providers
(PlainNameImportURI, FQNImportURI, RREL '+m:') x global repository on/off x builtin models on/off; with a global
repository also the histories 'load, load again' and 'load main, then load another file of the closure'.
Oracle: every file of the import closure opened exactly once per load (counting wrapper around open); one model instance
per file; every cross-file reference is the object of that instance; name collisions resolve to the model itself, then its
loaded models, then builtin models; a repeated load returns the cached model without opening anything.
"""

import os

from mc import core, mfiles
from mc.core import Unit, watchdog

ID = "C17"
LEVEL = "model_checking"
ENGINE = "E2-explicit-state-histories"
TECHNIQUE = "exhaustive enumeration of import digraphs x providers x repository modes, with two-load histories; open-count, identity and lookup-order oracle"
CLAIM = ("Every import digraph over 2 files (all providers and modes) and over 3 files (quick: default provider; thorough: all providers) is "
         "written to disk and loaded; file-open counts, the one-instance-per-file invariant, the identity of every cross-file reference target, "
         "the self > imported > builtin lookup order and the behaviour of repeated loads with a global repository are checked on each.")
NOTE = "Trusted: the open-counting wrapper (module attribute 'open' in textx.metamodel / textx.model) and the digraph generator. Search-path and glob_args variants of the providers are included; a glob pattern in an importURI value is covered by the two-language family (every order of the directory listing)."


def check_load(mm, d, g, provider, builtin, counter, expect_cached=False, main=0):
    from textx import get_model

    bad = []
    counter.counts.clear()
    m = mm.model_from_file(os.path.join(d, "f%d.m" % main))
    cl = mfiles.closure(g, main)
    opened = dict(counter.counts)
    if expect_cached:
        if opened:
            bad.append(("files opened on a cached load", opened))
    else:
        want = {"f%d.m" % i: 1 for i in cl}
        if opened != want:
            bad.append(("open counts", want, opened))
    # one model per file
    repo = m._tx_model_repository.all_models if hasattr(m, "_tx_model_repository") else None
    models = {}
    if repo is not None:
        for fn, mod in repo.filename_to_model.items():
            models.setdefault(os.path.basename(fn), []).append(mod)
    else:
        models = {"f%d.m" % main: [m]}
    if "f%d.m" % main not in models and not mfiles.closure(g, main)[1:]:
        models["f%d.m" % main] = [m]  # a model without imports is not entered into its own repository
    if not getattr(mm, "_tx_model_repository", None):
        if sorted(models) != sorted("f%d.m" % i for i in cl):
            bad.append(("models in repository", sorted(models), cl))
    for fn, lst in models.items():
        if len(lst) != 1:
            bad.append(("several instances of one file", fn, len(lst)))
    bym = {i: models["f%d.m" % i][0] for i in cl if "f%d.m" % i in models}
    if bym.get(main) is not m:
        bad.append(("main model is not the repository's instance",))
    # references
    for i, mod in bym.items():
        defs = {x.name: x for x in mod.defs}
        for r in mod.refs:
            t = r.target
            if r.name.startswith("rc"):
                exp = defs["common"]  # the model itself wins the collision
                if t is not exp:
                    bad.append(("collision: expected own 'common'", i, fn_of(t, bym)))
            elif r.name.startswith("r%d_" % i):
                j = int(r.name.split("_")[1])
                if j not in bym or t is not next(x for x in bym[j].defs if x.name == "d%d" % j):
                    bad.append(("cross-file reference identity", r.name, fn_of(t, bym)))
            elif r.name == "rb":
                if t is not next(x for x in mm._verif_builtin.defs if x.name == "builtinonly"):
                    bad.append(("builtin reference", fn_of(t, bym)))
    # visibility: from file i exactly the definitions of i itself and of the files it imports DIRECTLY can be named; the lookup is
    # repeated after the load through the very provider the resolver used (grammar RREL or the registered one)
    from textx.model import ObjCrossRef
    from textx.exceptions import TextXSemanticError

    cls_def = mm["Def"]
    for i, mod in bym.items():
        if not mod.refs:
            continue
        probe = mod.refs[0]
        attr = type(probe)._tx_attrs["target"]
        prov = attr.scope_provider or mm.scope_providers.get("*.*")
        if prov is None:
            continue
        for j in cl:
            if j not in bym:
                continue
            try:
                got = prov(probe, attr, ObjCrossRef("d%d" % j, cls_def, 0, prov, "ID"))
            except TextXSemanticError:
                got = None
            visible = j == i or j in g[i]
            if visible and got is not next(x for x in bym[j].defs if x.name == "d%d" % j):
                bad.append(("definition of a directly imported file not found", "f%d.m -> d%d" % (i, j)))
            if not visible and got is not None:
                bad.append(("definition of a file that is not imported directly is visible", "f%d.m -> d%d" % (i, j), fn_of(got, bym)))
    return m, bad


def fn_of(t, bym):
    from textx import get_model

    mod = get_model(t)
    for i, x in bym.items():
        if x is mod:
            return "f%d.m:%s" % (i, t.name)
    return "<other model>:%s" % getattr(t, "name", t)


def run_case(g, provider, grepo, builtin, history):
    d = os.path.join(core.rundir(), "c17-%d" % os.getpid())
    os.makedirs(d, exist_ok=True)
    for f in os.listdir(d):
        os.remove(os.path.join(d, f))
    extra = {0: [("rb", "builtinonly")]} if builtin else None
    mfiles.write_files(d, g, extra=extra)
    mm = mfiles.make_mm(provider, grepo, builtin)
    obs = {"graph": g, "provider": provider, "global_repository": grepo, "builtin": builtin, "history": history}
    bad = []
    with mfiles.OpenCounter() as oc:
        try:
            m1, b = check_load(mm, d, g, provider, builtin, oc)
            bad += b
            if history == "again-after-failure":
                with open(os.path.join(d, "bad.m"), "w") as fh:
                    fh.write("def x\nref r -> nosuchdef\n")
                try:
                    mm.model_from_file(os.path.join(d, "bad.m"))
                    bad.append(("broken file loaded",))
                except Exception:
                    pass
            if history in ("again", "again-after-failure"):
                m2, b = check_load(mm, d, g, provider, builtin, oc, expect_cached=grepo)
                bad += b
                if grepo and m2 is not m1:
                    bad.append(("repeated load did not return the cached model",))
                if not grepo and m2 is m1:
                    bad.append(("without a global repository a second load must build a new model",))
            elif history == "other" and grepo:
                cl = mfiles.closure(g, 0)
                if len(cl) > 1:
                    other = cl[1]
                    oc.counts.clear()
                    m2 = mm.model_from_file(os.path.join(d, "f%d.m" % other))
                    cached = m1._tx_model_repository.all_models.filename_to_model
                    same = [x for fn, x in cached.items() if os.path.basename(fn) == "f%d.m" % other]
                    if not same or same[0] is not m2:
                        bad.append(("loading a file of an earlier closure did not return its cached instance", other))
                    if oc.counts:
                        bad.append(("cached file opened again", dict(oc.counts)))
        except Exception as e:
            bad.append(("exception", "%s: %s" % (type(e).__name__, str(e).replace(d, "<dir>"))))
    obs["failures"] = bad[:3]
    return not bad, obs


# ---- glob imports over files of two languages; the order of the directory listing is an environment answer -----------
GLOB_FILES = ["e1.ent", "t2.type", "e3.ent", "t4.type", "v5.ver"]  # *.ver: a registered language whose root rule yields a plain value


def run_glob_case(order, grepo):
    """main.ent imports "lib/*"; lib holds *.ent files (language of the importer, not registered) and *.type files (registered language);
    order: the permutation in which the directory listing (glob) answers"""
    import glob as _glob
    import itertools

    import textx.scoping as S
    from textx import metamodel_from_str, register_language, clear_language_registrations
    from textx.scoping.providers import PlainNameImportURI

    # the directory of the importing model carries glob metacharacters: only the import text is a pattern, not the model's own location
    d = os.path.join(core.rundir(), "c17glob[v2]-%d" % os.getpid())
    os.makedirs(os.path.join(d, "lib"), exist_ok=True)
    for fn in GLOB_FILES:
        with open(os.path.join(d, "lib", fn), "w") as f:
            f.write("5" if fn.endswith(".ver") else ("ent %s" if fn.endswith(".ent") else "type %s") % fn[:2])
    with open(os.path.join(d, "main.ent"), "w") as f:
        f.write('import "lib/*" ent m')
    types_mm = metamodel_from_str("Model: types*=Ty; Ty: 'type' name=ID;")
    ent_mm = metamodel_from_str("Model: imports*=Import ents*=Ent; Import: 'import' importURI=STRING; Ent: 'ent' name=ID;", global_repository=grepo)
    ent_mm.register_scope_providers({"*.*": PlainNameImportURI()})
    listing = [GLOB_FILES[i] for i in order]
    real_glob = _glob.glob

    def fake_glob(pattern, **kw):
        got = real_glob(pattern, **kw)
        if sorted(os.path.basename(x) for x in got) != sorted(GLOB_FILES):
            return got  # the real answer (nothing to permute)
        return [os.path.join(os.path.dirname(got[0]), fn) for fn in listing]
    clear_language_registrations()
    register_language("c17types", pattern="*.type", metamodel=types_mm)
    register_language("c17ver", pattern="*.ver", metamodel=metamodel_from_str("Version: INT;"))
    obs = {"directory_listing_order": listing, "global_repository": grepo}
    bad = []
    S.glob.glob = fake_glob
    try:
        m = ent_mm.model_from_file(os.path.join(d, "main.ent"))
        loaded = {os.path.basename(x._tx_filename): x for x in m._tx_model_repository.all_models if x is not m and hasattr(x, "_tx_filename")}
        if sorted(loaded) != sorted(x for x in GLOB_FILES if not x.endswith(".ver")):  # the plain value 5 is no model object and is not kept
            bad.append(("files loaded", sorted(loaded)))
        for fn, x in loaded.items():
            want = types_mm if fn.endswith(".type") else ent_mm
            if x._tx_metamodel is not want:
                bad.append(("meta-model of " + fn, "types" if x._tx_metamodel is types_mm else "ent"))
            names = [o.name for o in (x.types if fn.endswith(".type") and hasattr(x, "types") else getattr(x, "ents", []))]
            if names != [fn[:2]]:
                bad.append(("content of " + fn, names))
    except Exception as e:
        bad.append(("exception", "%s: %s" % (type(e).__name__, str(e).replace(d, "<dir>")[:160])))
    finally:
        S.glob.glob = real_glob
        clear_language_registrations()
    obs["failures"] = bad[:3]
    return not bad, obs


def run_string_main(prov, how):
    """the MAIN model is given as a string (no file name); it imports a file by absolute path or through the provider's search path"""
    from textx import metamodel_from_str
    from textx.scoping import providers as P

    d = os.path.join(core.rundir(), "c17str-%d" % os.getpid())
    os.makedirs(d, exist_ok=True)
    with open(os.path.join(d, "lib.m"), "w") as f:
        f.write("i a i b r a")
    mm = metamodel_from_str("Model: imports*=Import items*=Item; Import: 'import' importURI=STRING; Item: 'i' name=ID ('r' ref=[Item])?;")
    kw = {"search_path": [d]} if how == "search-path" else {}
    mm.register_scope_providers({"*.*": getattr(P, prov)(**kw)})
    if how == "empty-text-with-file-name":
        # the text given is what is loaded, also when it is empty and a file of that name exists (or does not exist)
        obs = {"provider": prov, "main": "empty string with file_name"}
        bad = []
        try:
            want = mm.model_from_str("")
            for fn in ("lib.m", "nosuch.m"):
                got = mm.model_from_str("", file_name=os.path.join(d, fn))
                if got != want or hasattr(got, "items"):
                    bad.append(("empty text with file_name=" + fn, repr(got)[:60]))
        except Exception as e:
            bad.append(("exception", "%s: %s" % (type(e).__name__, str(e).replace(d, "<dir>")[:120])))
        obs["failures"] = bad
        return not bad, obs
    if how == "encoding":
        # the encoding given for the main text is the encoding of the files it imports (as with model_from_file)
        obs = {"provider": prov, "main": "string with encoding='latin-1' importing a latin-1 file"}
        bad = []
        with open(os.path.join(d, "lat.m"), "w", encoding="latin-1") as f:
            f.write("i caf\u00e9")
        try:
            m = mm.model_from_str('import "%s" i x r caf\u00e9' % os.path.join(d, "lat.m"), encoding="latin-1")
            if getattr(m.items[0].ref, "name", None) != "caf\u00e9":
                bad.append(("reference into the latin-1 file", repr(getattr(m.items[0].ref, "name", None))))
        except Exception as e:
            bad.append(("exception", "%s: %s" % (type(e).__name__, str(e).replace(d, "<dir>")[:120])))
        obs["failures"] = bad
        return not bad, obs
    uri = "lib.m" if how == "search-path" else os.path.join(d, "lib.m")
    obs = {"provider": prov, "import_written_as": how, "main": "string"}
    bad = []
    try:
        m = mm.model_from_str('import "%s" i x r a i y r x' % uri)
        libs = [x for x in m._tx_model_repository.all_models if x is not m]
        if len(libs) != 1:
            bad.append(("models loaded", len(libs)))
        elif m.items[0].ref is not libs[0].items[0] or m.items[1].ref is not m.items[0]:
            bad.append(("reference targets",))
    except Exception as e:
        bad.append(("exception", "%s: %s" % (type(e).__name__, str(e).replace(d, "<dir>")[:120])))
    obs["failures"] = bad
    return not bad, obs


def run_nested(where, grepo):
    """a load started from inside a callback of another load of the same meta-model (lazy loading of a library file): the outer load's unfinished
    models are in the shared global repository while the nested main load runs; it must leave them alone"""
    from textx import metamodel_from_str
    from textx.scoping import providers as P

    d = os.path.join(core.rundir(), "c17nest-%d" % os.getpid())
    os.makedirs(d, exist_ok=True)
    for fn, t in {"a.m": 'import "b.m" i a1 r b1 i a2 r l1 i a3 r a1', "b.m": "i b1 i b2 r b1", "lib.m": "i l1 i l2 r l1"}.items():
        with open(os.path.join(d, fn), "w") as f:
            f.write(t)
    mm = metamodel_from_str("Model: imports*=Import items*=Item; Import: 'import' importURI=STRING; Item: 'i' name=ID ('r' ref=[Item])?;", global_repository=grepo)
    inner = P.PlainNameImportURI()
    libs = []

    busy = []

    def lib():
        if not libs and not busy:
            busy.append(1)
            libs.append(mm.model_from_file(os.path.join(d, "lib.m")))
        return libs[0] if libs else None

    class Lazy(P.PlainNameImportURI):
        def __call__(self, obj, attr, obj_ref):
            r = inner.__call__(obj, attr, obj_ref)
            if r is None and where == "scope-provider":
                return next((x for x in lib().items if x.name == obj_ref.obj_name), None)
            if r is None and libs:
                return next((x for x in libs[0].items if x.name == obj_ref.obj_name), None)
            return r
    mm.register_scope_providers({"*.*": Lazy()})
    if where == "model-processor":
        mm.register_model_processor(lambda model, metamodel: lib() if os.path.basename(model._tx_filename or "") == "b.m" else None)
    if where == "pre-callback":
        pass
    obs = {"nested_load_in": where, "global_repository": grepo}
    bad = []
    try:
        if where == "pre-callback":
            m = mm.model_from_file(os.path.join(d, "a.m"), pre_ref_resolution_callback=None) if False else None
        if where == "match-processor":
            mm.register_obj_processors({"ID": lambda x: (lib(), x)[1]})
        m = mm.model_from_file(os.path.join(d, "a.m"))
        names = [(i.name, getattr(i.ref, "name", None)) for i in m.items]
        if names != [("a1", "b1"), ("a2", "l1"), ("a3", "a1")]:
            bad.append(("references of the outer model", names))
        if not libs or [(i.name, getattr(i.ref, "name", None)) for i in libs[0].items] != [("l1", None), ("l2", "l1")]:
            bad.append(("the nested model",))
        if m.items[1].ref is not libs[0].items[0]:
            bad.append(("identity of the nested model's object",))
    except Exception as e:
        bad.append(("exception", "%s: %s" % (type(e).__name__, str(e).replace(d, "<dir>")[:140])))
    obs["failures"] = bad[:3]
    return not bad, obs


def run_rrel_root(grepo):
    """'+m:' RREL with a user class for the root rule that keeps parent = None (written like the classes of contained rules): the imported
    models and the builtin models are start points of the search all the same"""
    from textx import metamodel_from_str
    from textx.scoping import ModelRepository

    d = os.path.join(core.rundir(), "c17rr-%d" % os.getpid())
    os.makedirs(d, exist_ok=True)
    for fn, t in {"a.m": 'import "b.m" i a1 r b1 i a2 r a1 i a3 r s1', "b.m": 'import "a.m" i b1 r a1', "std.m": "i s1"}.items():
        with open(os.path.join(d, fn), "w") as f:
            f.write(t)

    class Model:
        parent = None  # class-level default, visible before __init__ has run (user classes are initialised after the references are resolved)

        def __init__(self, imports=None, items=None):
            self.imports, self.items = imports, items
    g = "Model: imports*=Import items*=Item; Import: 'import' importURI=STRING; Item: 'i' name=ID ('r' ref=[Item:ID|+m:items])?;"
    std = metamodel_from_str(g, classes=[Model]).model_from_file(os.path.join(d, "std.m"))
    repo = ModelRepository()
    repo.add_model(std)
    mm = metamodel_from_str(g, classes=[Model], builtin_models=repo, global_repository=grepo)
    obs = {"family": "'+m:' RREL, root user class with parent=None", "global_repository": grepo}
    bad = []
    try:
        m = mm.model_from_file(os.path.join(d, "a.m"))
        names = [(i.name, getattr(i.ref, "name", None)) for i in m.items]
        if names != [("a1", "b1"), ("a2", "a1"), ("a3", "s1")]:
            bad.append(("references", names))
        elif m.items[2].ref is not std.items[0]:
            bad.append(("identity of the builtin model's object",))
    except Exception as e:
        bad.append(("exception", "%s: %s" % (type(e).__name__, str(e).replace(d, "<dir>")[:140])))
    obs["failures"] = bad
    return not bad, obs


def run_nested_eq(grepo):
    """a load started inside an object processor whose root object compares EQUAL (user __eq__) to the root of the enclosing load: it is a model of its
    own - resolved, initialised, processed"""
    from textx import metamodel_from_str

    inits, procs, nested = [], [], []

    class Model:
        def __init__(self, **kw):
            inits.append(id(self))
            self.__dict__.update(kw)

        def __eq__(self, other):
            return isinstance(other, Model)  # every model of this language is "the same unit"

        __hash__ = object.__hash__
    mm = metamodel_from_str("Model: imports*=Import items*=Item; Import: 'import' importURI=STRING; Item: 'i' name=ID ('r' ref=[Item])?;", classes=[Model], global_repository=grepo)

    def itemproc(o):
        procs.append(o.name)
        if o.name == "a1" and not nested:
            nested.append(mm.model_from_str("i n1 i n2 r n1"))
    mm.register_obj_processors({"Item": itemproc})
    obs = {"family": "nested load of a model equal to the enclosing one", "global_repository": grepo}
    bad = []
    try:
        m = mm.model_from_str("i a1 i a2 r a1")
        n = nested[0] if nested else None
        if n is None or n is m:
            bad.append(("nested model",))
        else:
            if [(i.name, getattr(i.ref, "name", None)) for i in n.items] != [("n1", None), ("n2", "n1")]:
                bad.append(("references of the nested model", [(i.name, getattr(i.ref, "name", None)) for i in getattr(n, "items", [])]))
            if id(n) not in inits:
                bad.append(("root of the nested model never initialised",))
            if sorted(procs) != ["a1", "a2", "n1", "n2"]:
                bad.append(("object processor calls", sorted(procs)))
        if [(i.name, getattr(i.ref, "name", None)) for i in m.items] != [("a1", None), ("a2", "a1")]:
            bad.append(("references of the outer model",))
    except Exception as e:
        bad.append(("exception", "%s: %s" % (type(e).__name__, str(e)[:140])))
    obs["failures"] = bad[:3]
    return not bad, obs


def run_nested_failing(grepo):
    """the load nested in a scope provider FAILS (the library file holds an unknown reference) and the provider goes on without it: the
    enclosing load and its files must be unaffected (still cached when there is a global repository)"""
    from textx import metamodel_from_str
    from textx.exceptions import TextXError
    from textx.scoping import providers as P

    d = os.path.join(core.rundir(), "c17nf-%d" % os.getpid())
    os.makedirs(d, exist_ok=True)
    for fn, t in {"a.m": 'import "b.m" i a1 r b1 i a2 r l1 i a3 r a1', "b.m": "i b1 i b2 r b1", "lib.m": "i l1 r nosuch"}.items():
        with open(os.path.join(d, fn), "w") as f:
            f.write(t)
    class Item:  # a user class: its objects keep their attributes outside the object while their model is under construction
        def __init__(self, **kw):
            self.__dict__.update(kw)
    mm = metamodel_from_str("Model: imports*=Import items*=Item; Import: 'import' importURI=STRING; Item: 'i' name=ID ('r' ref=[Item])?;", global_repository=grepo, classes=[Item])
    inner = P.PlainNameImportURI()
    tried = []

    class Lazy(P.PlainNameImportURI):
        def __call__(self, obj, attr, obj_ref):
            r = inner.__call__(obj, attr, obj_ref)
            from textx import get_model

            if r is None and os.path.basename(get_model(obj)._tx_filename or "") == "lib.m":
                return None  # inside the library itself: unknown
            if r is None:
                if not tried:
                    tried.append(1)
                    try:
                        mm.model_from_file(os.path.join(d, "lib.m"))
                    except TextXError:
                        pass
                return get_model(obj).items[0]  # fall back to a default target
            return r
    mm.register_scope_providers({"*.*": Lazy()})
    helper = []

    def idproc(x):
        # a second failing nested load: a helper text with a SYNTAX error is parsed while a value of the IMPORTED file b.m is converted
        if x == "b2" and not helper:
            helper.append(1)
            try:
                mm.model_from_str("i x i")
            except TextXError:
                pass
        return x
    mm.register_obj_processors({"ID": idproc})
    obs = {"nested_load_in": "scope-provider (unknown reference, caught) and match processor of the imported file (syntax error, caught)", "global_repository": grepo}
    bad = []
    try:
        m = mm.model_from_file(os.path.join(d, "a.m"))
        names = [(i.name, getattr(i.ref, "name", None)) for i in m.items]
        if names != [("a1", "b1"), ("a2", "a1"), ("a3", "a1")] or not tried or not helper:
            bad.append(("references of the outer model", names))
        if grepo:
            cached = sorted(os.path.basename(k) for k in mm._tx_model_repository.all_models.filename_to_model)
            if cached != ["a.m", "b.m"]:
                bad.append(("global repository after the load", cached))
            if mm.model_from_file(os.path.join(d, "a.m")) is not m:
                bad.append(("a repeated load returns another instance",))
    except Exception as e:
        bad.append(("exception", "%s: %s" % (type(e).__name__, str(e).replace(d, "<dir>")[:140])))
    obs["failures"] = bad[:3]
    return not bad, obs


def work_glob(arg):
    u = Unit()
    for order, grepo in arg:
        cid = ["string-main", order, grepo] if isinstance(order, str) else ["glob-two-languages", list(order), grepo]
        with watchdog(30):
            ok, obs = (run_nested_eq(grepo) if order == "nested:eq-root" else run_rrel_root(grepo) if order == "nested:rrel-root" else run_nested_failing(grepo) if order == "nested:failing" else run_nested(order[7:], grepo) if order.startswith("nested:") else run_string_main(order, grepo)) if isinstance(order, str) else run_glob_case(order, grepo)
        u.case(cid, nontrivial=True, sample=obs if isinstance(order, str) or list(order) == [1, 0, 3, 2, 4] else None)
        u.transitions += 1
        u.count("glob import over two languages")
        if not ok:
            u.fail(cid, {"glob": [order if isinstance(order, str) else list(order), grepo]}, sig="glob " + str(obs["failures"][0][0])[:40], what=str(obs)[:500])
    return u


def work(arg):
    cases = arg
    u = Unit()
    for g, provider, grepo, builtin, history in cases:
        cid = [g, provider, grepo, builtin, history]
        with watchdog(30):
            ok, obs = run_case(g, provider, grepo, builtin, history)
        n_edges = sum(len(x) for x in g)
        u.case(cid, nontrivial=n_edges > 0, sample=obs if n_edges > 2 else None)
        u.transitions += 2 if history != "once" else 1
        u.count("provider:" + provider)
        if not ok:
            u.fail(cid, {"graph": g, "provider": provider, "grepo": grepo, "builtin": builtin, "history": history},
                   sig="%s %s" % (obs["failures"][0][0], provider), what="graph=%s provider=%s grepo=%s builtin=%s history=%s :: %s" % (g, provider, grepo, builtin, history, str(obs["failures"][:2])[:400]))
    return u


def run(ctx):
    cases = []
    provs = ["plain", "fqn", "rrel", "plain-searchpath", "fqn-searchpath", "plain-glob"]
    for g in mfiles.graphs(2):
        for p in provs:
            for grepo in (False, True):
                for builtin in (False, True):
                    for h in ("once", "again", "other", "again-after-failure"):
                        cases.append((g, p, grepo, builtin, h))
    for g in mfiles.graphs(3):
        for p in (provs if ctx.tier == "thorough" else ["plain", "plain-searchpath"]):
            for grepo in (False, True):
                for h in (("again", "other", "again-after-failure") if ctx.tier == "thorough" else ("again", "again-after-failure")):
                    cases.append((g, p, grepo, False, h))
        if ctx.tier == "quick":
            for p in ("rrel", "fqn"):
                for grepo in (False, True):
                    cases.append((g, p, grepo, False, "again"))
    B = 40
    ctx.pmap(work, [cases[i:i + B] for i in range(0, len(cases), B)])
    import itertools

    gl = [(o, gr) for o in itertools.permutations(range(len(GLOB_FILES))) for gr in (False, True)]
    gl += [(prov, how) for prov in ("PlainNameImportURI", "FQNImportURI") for how in ("absolute", "search-path", "empty-text-with-file-name", "encoding")]
    gl += [("nested:" + w, gr) for w in ("scope-provider", "model-processor", "match-processor", "failing", "rrel-root", "eq-root") for gr in (False, True)]
    ctx.pmap(work_glob, [gl[i:i + 8] for i in range(0, len(gl), 8)])
    ctx.states = ctx.evaluations
    return {
        "rule": "case = (import digraph, provider, global repository on/off, builtin models on/off, history in {one load, same file twice, main then another "
                "closure file, same file twice with a failing load of another file in between}); all 16 digraphs over 2 files for every combination, all 512 digraphs over 3 files for %s; states = cases, "
                "transitions = loads; non-trivial = digraph with at least one import" % ("all providers" if ctx.tier == "thorough" else "the PlainNameImportURI providers (all histories) and the RREL '+m:' and FQNImportURI providers (history 'same file twice')"),
        "exhaustive": True, "cases": len(cases),
    }, ["file f_i defines d_i and 'common' and references d_j of every directly imported file, its own d_i and 'common'"]


def replay(p):
    if "glob" in p:
        if p["glob"][0] == "nested:eq-root":
            return run_nested_eq(p["glob"][1])
        if p["glob"][0] == "nested:rrel-root":
            return run_rrel_root(p["glob"][1])
        if p["glob"][0] == "nested:failing":
            return run_nested_failing(p["glob"][1])
        if isinstance(p["glob"][0], str) and p["glob"][0].startswith("nested:"):
            return run_nested(p["glob"][0][7:], p["glob"][1])
        if isinstance(p["glob"][0], str):
            return run_string_main(*p["glob"])
        return run_glob_case(tuple(p["glob"][0]), p["glob"][1])
    g = tuple(tuple(x) for x in p["graph"])
    return run_case(g, p["provider"], p["grepo"], p["builtin"], p["history"])
