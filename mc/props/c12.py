"""C12 - printed RREL expressions re-parse to equivalent expressions.

E1: every RREL text derivable from the RREL grammar with at most N atoms (navigation /
parent / dots / ^), bracket nesting <= D, over a tiny alphabet with every flag prefix.
Oracle: parse(str(parse(t))) is structurally equal to parse(t) (node classes, fields, flags)
and evaluates identically (textx.scoping.rrel.find) on a fixed family of models.
"""

import re

from mc.core import Unit, watchdog

ID = "C12"
LEVEL = "exploration"
ENGINE = "E1-bounded-exhaustive-inputs"
TECHNIQUE = "bounded-exhaustive enumeration of RREL derivations; parse/print/parse structural + evaluation differential on the real parser"
CLAIM = ("Every RREL expression text with at most N atoms and bracket depth D over the alphabet (all operators, fixed names, "
         "all flag prefixes) is parsed, printed and re-parsed by the real code; structure, flags and find() results on a model "
         "family must be equal. Exhaustive within the bound, so no operator/flag combination of that size loses information when printed.")
NOTE = "Trusted: the structural walker over the public RREL node classes. Names outside the alphabet and expressions larger than the bound are not covered."

FLAGS = ["", "+m:", "+p:", "+mp:", "+pm:"]


NAVS5 = ["a", "b", "~a", "'n'~a", "'n m'~b"]
NAVS3 = ["a", "~b", '"n m"~a']
# fixed names that need care when printed: a quote of the other kind, an escaped quote, the empty name
NAVSQ = ["a", '"q\'r"~a', "'q\"r'~b", "'q\\'r'~a", "''~b"]
# braces (doubled and single) and a single quote as the FIRST character of a name given in double quotes
NAVSB = ["a", "'{{s}}'~a", "'{'~b", '"\'t"~a', '"\'"~b']
# (navigation alphabet, max atoms, max bracket depth) per tier; the union is enumerated
SPACES = {"quick": [(NAVS5, 2, 1), (NAVSQ, 2, 1), (NAVSB, 2, 1)], "thorough": [(NAVS5, 2, 2), (NAVS3, 3, 1), (NAVSQ, 2, 1), (NAVSB, 2, 1)]}
_NAV = [NAVS5]


def navs(tier):
    return _NAV[0]


def gen_element(n, depth, tier):
    if n == 1:
        for x in navs(tier):
            yield x
        yield "parent(T)"
    if depth > 0 and n >= 1:
        for s in gen_seq(n, depth - 1, tier):
            yield "(" + s + ")"


def gen_part(n, depth, tier):
    for e in gen_element(n, depth, tier):
        yield e
        yield e + "*"


def gen_parts(n, depth, tier):
    """non-empty '.'-joined list of parts with n atoms in total"""
    for e in gen_part(n, depth, tier):
        yield e
    for k in range(1, n):
        for first in gen_part(k, depth, tier):
            for rest in gen_parts(n - k, depth, tier):
                yield first + "." + rest


PREFIX = ["^", ".", "..", "..."]


def gen_path(n, depth, tier):
    for p in gen_parts(n, depth, tier):
        yield p
    if n == 1:
        for pre in PREFIX:
            yield pre
    if n >= 2:
        for pre in PREFIX:
            for p in gen_parts(n - 1, depth, tier):
                yield pre + p


def gen_seq(n, depth, tier):
    for p in gen_path(n, depth, tier):
        yield p
    for k in range(1, n):
        for first in gen_path(k, depth, tier):
            for rest in gen_seq(n - k, depth, tier):
                yield first + "," + rest


# expressions beyond the atom bound that combine the same construct twice (several '^' paths, several parent() steps, repeated dots)
EXTRA = ["^a,^b", "^b,^a", "^a.b,^b.a", "^a*,^b", "a,^b", "(^a),(^b)", "^a,^b,^n", "parent(T).a,parent(T).b", "..a,..b", "(^a,^b)*", "^b.a,^a.b", "~a.(^b),^b"]


def texts(tier):
    seen = set(EXTRA)
    yield from EXTRA
    for nav, N, D in SPACES[tier]:
        _NAV[0] = nav
        for n in range(1, N + 1):
            for s in gen_seq(n, D, tier):
                if s not in seen:
                    seen.add(s)
                    yield s


def struct(node):
    from textx.scoping import rrel as R

    if isinstance(node, R.RRELExpression):
        return ("expr", bool(node.importURI), bool(node.use_proxy), struct(node.seq))
    if isinstance(node, R.RRELSequence):
        return ("seq",) + tuple(struct(p) for p in node.paths)
    if isinstance(node, R.RRELPath):
        return ("path",) + tuple(struct(p) for p in node.path_elements)
    if isinstance(node, R.RRELZeroOrMore):
        return ("star", struct(node.path_element))
    if isinstance(node, R.RRELBrackets):
        return ("br", struct(node.seq))
    if isinstance(node, R.RRELDots):
        return ("dots", node.num)
    if isinstance(node, R.RRELParent):
        return ("parent", node.type)
    if isinstance(node, R.RRELNavigation):
        return ("nav", node.name, bool(node.consume_name), node.fixed_name)
    return ("?", repr(node))


_MODELS = []

GRAMMAR = r"""
Model: a*=T b*=T;
T: 'T' name=ID ('{' a*=T b*=T '}')?;
"""
MODEL_TEXTS = [
    "T a { T n { T a T b } } T b { T n T a { T b } }",
]


def models():
    if not _MODELS:
        from textx import metamodel_from_str, get_children

        mm = metamodel_from_str(GRAMMAR)
        for t in MODEL_TEXTS:
            m = mm.model_from_str(t)
            objs = [m] + get_children(lambda x: x is not m, m)
            _MODELS.append((m, objs))
    return _MODELS


NAMES = ["a", "b", "a.b", "n.a", "b.n.a"]


def evaluate(tree, flagged_proxy):
    from textx.scoping.rrel import find
    from textx.scoping import Postponed

    out = []
    for mi, (m, objs) in enumerate(models()):
        for oi, o in enumerate(objs):
            for nm in NAMES:
                try:
                    r = find(o, nm, tree, use_proxy=flagged_proxy)
                except RecursionError:
                    r = "RecursionError"
                if r is None or isinstance(r, str):
                    out.append(r)
                elif isinstance(r, Postponed):
                    out.append("Postponed")
                elif flagged_proxy:
                    out.append(tuple(objs.index(p) if p in objs else -1 for p in r._tx_path))
                else:
                    out.append(next(i for i, x in enumerate(objs) if x is r))
    return out


FIXED = re.compile(r"""'((?:\\'|[^'])*)'~|"((?:\\"|[^"])*)"~""")


def fixed_in_text(text):
    return [a if m.group(0)[0] == "'" else b for m in FIXED.finditer(text) for a, b in [m.groups()]]


def fixed_in_struct(s, out=None):
    out = [] if out is None else out
    if s[0] == "nav":
        if s[3] is not None:
            out.append(s[3])
    else:
        for x in s[1:]:
            if isinstance(x, tuple):
                fixed_in_struct(x, out)
    return out


def run_case(text, with_eval=True):
    from textx.scoping.rrel import parse

    # parse history: a look-alike expression (same text without the blanks) is parsed first; the tree of `text` must still
    # carry the fixed names exactly as written in `text` (oracle independent of the parser: the generator's own atoms)
    alike = text.replace(" ", "")
    if alike != text:
        ta = parse(alike)
        if fixed_in_struct(struct(ta)) != fixed_in_text(alike):
            return False, {"text": alike, "printed": repr(getattr(ta, "seq", ta))[:80], "fixed_names_expected": fixed_in_text(alike), "fixed_names_parsed": fixed_in_struct(struct(ta))}
    t1 = parse(text)
    s1 = struct(t1)
    if fixed_in_struct(s1) != fixed_in_text(text):
        return False, {"text": text, "printed": str(t1), "fixed_names_expected": fixed_in_text(text), "fixed_names_parsed": fixed_in_struct(s1),
                       "parsed_before": alike if alike != text else None}
    try:
        printed = str(t1)
    except Exception as e:
        return False, {"text": text, "print_error": "%s: %s" % (type(e).__name__, e)}
    try:
        t2 = parse(printed)
    except Exception as e:
        return False, {"text": text, "printed": printed, "reparse_error": "%s: %s" % (type(e).__name__, e)}
    s2 = struct(t2)
    if s1 != s2:
        return False, {"text": text, "printed": printed, "struct": s1, "reparsed_struct": s2}
    if with_eval and "+m" not in text and "+pm" not in text:
        e1 = evaluate(t1, t1.use_proxy)
        e2 = evaluate(t2, t2.use_proxy)
        if e1 != e2:
            return False, {"text": text, "printed": printed, "eval_differs": True}
    return True, {"text": text, "printed": printed}


EMBED_NAVS = ["a", "~b", "'n'~a", "'x\\\\ny'~a", "'t\\\\t'~b", '"q\'r"~a', "'\\\\x41'~b"]


def embed_texts():
    """RREL texts for the round trip through a GRAMMAR (the expression is read by the grammar visitor, not by rrel.parse): fixed names
    with backslash sequences, which the grammar keeps verbatim"""
    out = []
    for x in EMBED_NAVS:
        out += [x, x + ".a", "b," + x, "(" + x + ")*.b", "^" + x if not x.startswith(("'", '"')) else x + ".~a"]
    return [f + t for t in dict.fromkeys(out) for f in ("", "+p:", "+mp:")]


def run_embedded(text):
    from textx import metamodel_from_str

    g = "M: 'T' name=ID ('->' r=[M:ID|%s])? ('{' a*=M b*=M '}')?;"
    def tree_of(rrel):
        sp = metamodel_from_str(g % rrel)["M"]._tx_attrs["r"].scope_provider
        sp = getattr(sp, "scope_provider", sp)  # '+m:' wraps the RREL provider in an ImportURI provider
        return sp.rrel_tree
    t1 = tree_of(text)
    printed = str(t1)
    try:
        t2 = tree_of(printed)
    except Exception as e:
        return False, {"text": text, "printed": printed, "embedded": True, "reparse_error": "%s: %s" % (type(e).__name__, str(e)[:100])}
    s1, s2 = struct(t1), struct(t2)
    if s1 != s2:
        return False, {"text": text, "printed": printed, "embedded": True, "struct": s1, "reparsed_struct": s2}
    return True, {"text": text, "printed": printed, "embedded": True}


def work_embedded(chunk):
    u = Unit()
    for text in chunk:
        with watchdog(20):
            ok, obs = run_embedded(text)
        u.case(["embedded", text], nontrivial=True, sample=obs)
        u.count("grammar-embedded round trip")
        if not ok:
            u.fail(["embedded", text], {"text": text, "embedded": True}, sig="embedded", what="in a grammar %r prints as %r: %s" % (text, obs.get("printed"), str(obs)[:200]))
    return u


def work(arg):
    tier, chunk, flags = arg
    u = Unit()
    for body in chunk:
        for fl in flags:
            text = fl + body
            with watchdog(20):
                ok, obs = run_case(text, with_eval=(fl in ("", "+p:")))
            u.case(text, nontrivial=(obs.get("printed") != text), sample={"text": text, "printed": obs.get("printed")})
            u.count("flag:" + (fl or "none"))
            if not ok:
                u.fail(text, {"text": text}, what="%r prints as %r" % (text, obs.get("printed")))
    return u


def run(ctx):
    bodies = list(texts(ctx.tier))
    B = 50
    # every body of the quick space gets every flag prefix; the bodies only the thorough space adds get none and the two-letter prefix '+pm:'
    # (a flag prefix is printed by RRELExpression.__repr__ alone: it does not interact with the shape of the body)
    small = set(texts("quick")) if ctx.tier == "thorough" else set(bodies)
    full = [x for x in bodies if x in small]
    rest = [x for x in bodies if x not in small]
    ctx.pmap(work, [(ctx.tier, full[i:i + B], FLAGS) for i in range(0, len(full), B)] + [(ctx.tier, rest[i:i + B], ["", "+pm:"]) for i in range(0, len(rest), B)])
    et = embed_texts()
    ctx.pmap(work_embedded, [et[i:i + 10] for i in range(0, len(et), 10)])
    return {
        "rule": "all RREL texts derivable from the RREL grammar in the union of spaces (navigation alphabet, max atoms, max bracket "
                "depth) = %s, each body of the quick space with every flag prefix %s and every further body with none and '+pm:'; atoms = navigation/parent/dots/^ elements; "
                "non-trivial = the printed form differs textually from the input (normalisation happened)" % (SPACES[ctx.tier], FLAGS),
        "exhaustive": True,
        "bodies": len(bodies),
    }, ["structural equality is judged on the public fields of the RREL node classes",
        "evaluation equality is checked on %d models x all objects x %d names for unflagged and +p: expressions" % (len(MODEL_TEXTS), len(NAMES))]


def replay(payload):
    if payload.get("embedded"):
        return run_embedded(payload["text"])
    ok, obs = run_case(payload["text"])
    return ok, obs
