"""C22 - whitespace and comments between tokens do not change the model.

E1: for every grammar of the F-rules family (global skipws/ws, rule modifiers noskipws/skipws/ws, with and without a
Comment rule) and small F-expr grammars with a Comment rule, every input the reference accepts is mutated by inserting
each string of {' ', newline, tab, two blanks, a comment, comment+blank} at EVERY character boundary (deviation bound 1;
thorough: also every pair of boundaries for the blank/comment insertions).
Oracle: implementation(mutated) == RefPEG(mutated). RefPEG decides where skipping is active, so insertions at inactive
places are judged too (usually: reject). A purely metamorphic oracle would be unsound (an earlier alternative may start
to match after an insertion), hence the reference.
"""

import itertools
import json

from mc import refpeg, gramgen, diff
from mc.core import Unit
from mc.props import c01

ID = "C22"
LEVEL = "exploration"
ENGINE = "E1-bounded-exhaustive-inputs"
TECHNIQUE = "bounded-exhaustive insertion of whitespace/comment strings at every boundary of every accepted input; differential against RefPEG's dynamic whitespace state"
CLAIM = ("For every grammar of the families and every input up to 3 tokens the reference accepts, all single insertions (thorough: all pairs) of "
         "whitespace characters of the active and inactive sets and of Comment matches at every character boundary are executed; the "
         "implementation must give the reference's verdict and model on each mutated text, which includes 'unchanged model where skipping is "
         "active' and 'only the active set is skipped under noskipws / ws modifiers'.")
NOTE = "Trusted: RefPEG's whitespace/comment skipping (documented: modifier state is dynamic and starts immediately after the previous match)."


def insertions(comment, cr=False, extra=""):
    ins = [" ", "\n", "\t", "  "] + (["\r", "\r\n"] if cr else []) + [c for c in extra if c not in " \n\t\r"]
    if comment == "line":
        ins += ["#z\n", " #z\n "]
    elif comment == "block":
        ins += ["/*z*/", " /*z*/ "]
    return ins


def mutate(text, ins, pairs):
    n = len(text)
    for i in range(n + 1):
        for s in ins:
            yield text[:i] + s + text[i:]
    if pairs:
        short = [s for s in ins if s in (" ", "\n", "#z\n", "/*z*/")]
        for i in range(n + 1):
            for j in range(i, n + 1):
                for a in short:
                    for b in short:
                        yield text[:i] + a + text[i:j] + b + text[j:]


def comment_kind(g):
    cm = [r for r in g if r[0] == "Comment"]
    if not cm:
        return None
    body = cm[0][2]
    if body[0] == "ref":
        return "line"
    if body[0] == "alt":
        return "line"
    return "line" if "#" in body[1] else "block"


def work(arg):
    tier, items = arg
    u = Unit()
    old = c01.classify
    try:
        for label, g, cfgs in items:
            ck = comment_kind(g)
            ins = insertions(ck, cr=any("\r" in r[1].get("ws", "") for r in g), extra="".join(r[1].get("ws", "") for r in g))
            alpha = gramgen.alphabet(g, foreign=False)
            for cfg in cfgs:
                interp = refpeg.Interp(g, **{k: v for k, v in cfg.items() if k in diff.REF_KEYS})
                texts = []
                for t in gramgen.inputs(alpha, 3, 60 if tier == "quick" else 120):
                    for j in (" ", ""):
                        if j == "" and len(t) < 2:
                            continue
                        base = j.join(t)
                        if diff.ref_outcome(interp, base)[0] == "accept":
                            texts.append(base)
                            texts += list(mutate(base, ins, tier == "thorough" and len(base) <= 5))
                texts = list(dict.fromkeys(texts))
                c01.run_texts(g, cfg, texts, u, "ws", label=label.split("|")[0])
    finally:
        c01.classify = old
    return u


def families(tier):
    # {"skipws": False, "ws": " "}: skipping off globally with a custom set, re-enabled by [skipws] rules;
    # {"ws": ""}: the EMPTY global set with skipping on - nothing may be skipped except under a rule's own ws modifier (seed C22-j)
    cfgs = [{}, {"skipws": False}, {"ws": " "}, {"skipws": False, "ws": " "}, {"ws": ""}]
    for label, g in gramgen.frules(tier):
        # a line comment ends at '$': with ignore_case the regexes of the grammar must still be multi-line
        yield label, g, cfgs + ([{"ignore_case": True}] if any(r[0] == "Comment" and "#" in r[2][1] for r in g) else [])
    for label, g in gramgen.frules_restate():
        yield label, g, [{}, {"skipws": False}]
    # whitespace sets of several characters including carriage return; insertions then include '\r' and '\r\n'
    for label, g in gramgen.frules("quick", gramgen.WS_SETS):
        if any(r[1] for r in g) and not any(r[0] == "Comment" for r in g):
            yield label + "|ws-sets", g, [{}]
    # the Comment rule written as a reference to another rule, and as a choice of two referenced rules
    RE, REF, ALT = gramgen.RE, gramgen.REF, gramgen.ALT
    cl, cb = ("CL", {}, gramgen.COMMENTS["line"][2]), ("CB", {}, gramgen.COMMENTS["block"][2])
    k = 0
    for label, g in gramgen.frules("quick"):
        if any(r[0] == "Comment" and "#" in r[2][1] for r in g):
            k += 1
            if k % 3 == 0:
                yield label + "|comment-ref", [("Comment", {}, REF("CL")) if r[0] == "Comment" else r for r in g] + [cl], [{}]
            elif k % 3 == 1:
                yield label + "|comment-refs", [("Comment", {}, ALT(REF("CL"), REF("CB"))) if r[0] == "Comment" else r for r in g] + [cl, cb], [{}]
    # small expression grammars with a Comment rule and repetition modifiers
    for size in ((1, 2) if tier == "quick" else (1, 2, 3)):
        for b in gramgen.bodies("quick", size):
            if not gramgen.valid(b):
                continue
            txt = refpeg.expr_text(b, 0)
            if size == 3 and not ("eolterm" in txt or "[" in txt):
                continue
            for cname in ("line", "block"):
                yield "expr%d" % size, gramgen.grammar_for(b, extra_rules=[gramgen.COMMENTS[cname]]), [{}]


def run(ctx):
    c01.selfcheck()
    items = list(families(ctx.tier))
    ctx.pmap(work, [(ctx.tier, items[i:i + 6]) for i in range(0, len(items), 6)])
    return {
        "rule": "case = (grammar, config, mutated input); base inputs = token strings up to 3 tokens (joined by ' ' and '') that the reference "
                "accepts; mutations = every insertion string at every character boundary (thorough: plus all pairs of boundaries for short inputs); "
                "non-trivial = reference accepts the mutated text",
        "exhaustive": True, "grammars": len(items), "deviation_bound": 1 if ctx.tier == "quick" else 2,
    }, ["insertion strings: blank, newline, tab, two blanks, and for grammars with a Comment rule a comment alone and a comment surrounded by blanks"]


replay = c01.replay
