"""C26 - language / generator registries behave as case-insensitive maps.

Engine E2: explicit-state breadth-first search over histories of the real registration API,
run to closure over a finite universe.  Every transition executes the real functions of
textx.registration; after every transition the observable state and every query are compared
with a reference model made of plain dicts.
"""

import fnmatch
import json

from mc.core import Unit, HarnessError

ID = "C26"
LEVEL = "model_checking"
TECHNIQUE = "explicit-state BFS to closure over registry operation histories (real API) vs dict reference model"

ENGINE = "E2-explicit-state-histories"
CLAIM = ("Every reachable state of the registration module over a finite universe of names (case variants), patterns, "
         "files, registration kinds and generator keys is visited (BFS to closure); in every state every operation and "
         "every query of the real API agrees with a dict-based reference model, so no operation history over this "
         "universe breaks the map/cache behaviour.")
NOTE = ("Trusted: the reference model (about 100 lines of dict code), fnmatch, importlib entry points constant during a run. "
        "Names/patterns outside the universe and concurrent use are not covered.")
_W = {}


def universe(tier):
    if tier == "quick":
        return dict(
            lang_regs=[(n, p, k) for n in ("a", "A") for p in ("*.x", "f.*") for k in ("inst", "fact")]
            + [("b", "*.x", "fact"), ("TEXTX", "*.x", "inst"),  # the last one collides with an entry-point language
               ("n", None, "inst"), ("z", "*.x", "none")],  # a language without a pattern (the default) / without a meta-model (the default)
            files=["f.x", "g.y", "m.tx"],
            mm_names=["a", "A", "b", "textx", "z"],
            gen_regs=[("a", "t"), ("A", "T"), ("any", "t"), ("TextX", "DOT")],  # the last one collides with an entry-point generator
        )
    return dict(
        lang_regs=[(n, p, k) for n in ("a", "A") for p in ("*.x", "*.y", "f.*") for k in ("inst", "fact")]
        + [("b", p, k) for p in ("*.x", "f.*") for k in ("inst", "fact")] + [("TEXTX", "*.x", "inst"), ("n", None, "inst"), ("z", "*.x", "none")],
        files=["f.x", "g.y", "h.z", "m.tx"],
        mm_names=["a", "A", "b", "textx", "z", "n"],
        gen_regs=[("a", "t"), ("A", "T"), ("a", "T"), ("any", "t"), ("ANY", "T"), ("TextX", "DOT"), ("ANY", "dot")],
    )


def ops_of(u):
    ops = []
    for i, (n, p, k) in enumerate(u["lang_regs"]):
        ops.append(("rl", n, p, k, "desc" if i % 2 else "args"))
        if k == "none":
            ops.append(("rl", n, p, k, "args" if i % 2 else "desc"))  # a registration without meta-model in both forms
    ops.append(("cl",))
    for n in u["mm_names"]:
        ops.append(("ml", n, None))
        ops.append(("ml", n, "x"))
    for f in u["files"]:
        ops.append(("mf", f, None))
        ops.append(("mf", f, "x"))
        ops.append(("msf", f))
    for i, (l, t) in enumerate(u["gen_regs"]):
        ops.append(("rg", l, t, "desc" if i % 2 else "args"))
    ops.append(("cg",))
    return ops


def queries_of(u):
    qs = []
    for n in ["a", "A", "b", "B", "c", "TEXTX", "textX"]:
        qs.append(("ld", n))
    for f in u["files"] + ["m.tx", "*.x", "*.tx"]:
        qs.append(("lsf", f))
        qs.append(("lf", f))
    for l in ["a", "A", "b", "any", "ANY", "textX"]:
        for t in ["t", "T", "dot", "DOT", "u"]:
            for anyp in (False, True):
                qs.append(("gd", l, t, anyp))
    return qs


# ------------------------------------------------------------------------------------------
# reference model (plain dicts)


class Ref:
    def __init__(self, ep_langs, ep_gens):
        self.ep_langs = ep_langs  # key -> (name, pattern, token)
        self.ep_gens = ep_gens  # lang -> target -> token
        self.L = dict(ep_langs)
        self.G = {k: dict(v) for k, v in ep_gens.items()}
        self.cache = {}
        self.serial = 0

    def copy(self):
        r = Ref(self.ep_langs, self.ep_gens)
        r.L = dict(self.L)
        r.G = {k: dict(v) for k, v in self.G.items()}
        r.cache = dict(self.cache)
        r.serial = self.serial
        return r

    def langs_for_file(self, f):
        return [d for d in self.L.values() if d[1] is not None and (f == d[1] or fnmatch.fnmatch(f, d[1]))]

    def lang_for_file(self, f):
        ls = self.langs_for_file(f)
        if len(ls) != 1:
            return ("ERR",)
        return ls[0]

    def mm_for_lang(self, name, kw):
        key = name.lower()
        if key not in self.cache or kw:
            if key not in self.L:
                return ("ERR",)
            tok = self.L[key][2]
            if tok[0] == "none":
                return ("ERR",)  # registered without a meta-model: a registration error, whatever the arguments
            if tok[0] == "inst":
                self.cache[key] = ("mm",) + tok
            elif tok[0] == "fact":
                self.serial += 1
                self.cache[key] = ("mm", "fact", tok[1], kw, self.serial)
            else:  # entry point factory
                self.cache[key] = ("mm", "ep", key)
        return self.cache[key]

    def apply(self, op):
        k = op[0]
        if k == "rl":
            _, n, p, kind, form = op
            if n.lower() in self.L:
                return ("ERR",)
            self.L[n.lower()] = (n, p, (kind, "%s|%s|%s" % (n, p, kind)))
            return ("ok",)
        if k == "cl":
            self.L = dict(self.ep_langs)
            self.cache = {}
            return ("ok",)
        if k == "ml":
            return self.mm_for_lang(op[1], op[2])
        if k == "mf":
            d = self.lang_for_file(op[1])
            if d == ("ERR",):
                return d
            return self.mm_for_lang(d[0], op[2])
        if k == "msf":
            out = []
            for d in self.langs_for_file(op[1]):
                out.append(self.mm_for_lang(d[0], None))
                if out[-1] == ("ERR",):
                    return ("ERR",)  # a matching language without a meta-model: the request fails (meta-models found before it stay cached)
            return ("list",) + tuple(out)
        if k == "rg":
            _, l, t, form = op
            g = self.G.get(l.lower(), {})
            if t.lower() in g:
                return ("ERR",)
            self.G.setdefault(l.lower(), {})[t.lower()] = ("gen", "%s|%s" % (l, t))
            return ("ok",)
        if k == "cg":
            self.G = {k: dict(v) for k, v in self.ep_gens.items()}
            return ("ok",)
        raise HarnessError(op)

    def query(self, q):
        k = q[0]
        if k == "ld":
            d = self.L.get(q[1].lower())
            return ("ERR",) if d is None else d
        if k == "lsf":
            return ("set",) + tuple(sorted(self.langs_for_file(q[1])))
        if k == "lf":
            return self.lang_for_file(q[1])
        if k == "gd":
            _, l, t, anyp = q
            g = self.G.get(l.lower(), {}).get(t.lower())
            if g is None and anyp:
                g = self.G.get("any", {}).get(t.lower())
            return ("ERR",) if g is None else g
        raise HarnessError(q)

    def canon(self):
        cache = tuple(sorted((k, v[:4] if v[1] == "fact" else v) for k, v in self.cache.items()))
        return (
            tuple(sorted(self.L.items())),
            cache,
            tuple(sorted((l, tuple(sorted(g.items()))) for l, g in self.G.items() if g)),
        )


# ------------------------------------------------------------------------------------------
# the real system under the same operations


class Real:
    def __init__(self):
        from textx import registration as R
        from textx.metamodel import TextXMetaMetaModel

        self.R = R
        self.MM = TextXMetaMetaModel
        self.serial = 0
        self.insts = {}
        R.clear_language_registrations()
        R.clear_generator_registrations()
        self.ep_langs = {}
        for k, d in R.language_descriptions().items():
            d._tok = ("ep", k)
            self.ep_langs[k] = (d.name, d.pattern, ("ep", k))
        self.ep_gens = {}
        for l, g in R.generator_descriptions().items():
            for t, d in g.items():
                d._tok = ("gen", "ep:%s|%s" % (l, t))
                self.ep_gens.setdefault(l, {})[t] = d._tok
        self._ep_desc_langs = dict(R.languages)
        self._ep_desc_gens = {l: dict(g) for l, g in R.generators.items()}
        R.clear_language_registrations()
        R.clear_generator_registrations()

    def reset(self):
        # the harness's own reset writes the three module globals directly; the implementation's clear functions are operations
        # under test ('cl', 'cg') and must not be trusted to re-establish the initial state
        self.R.languages = None
        self.R.generators = None
        self.R.metamodels = {}

    def snapshot(self):
        R = self.R
        return (
            None if R.languages is None else dict(R.languages),
            None if R.generators is None else {l: dict(g) for l, g in R.generators.items()},
            dict(R.metamodels),
        )

    def restore(self, s):
        R = self.R
        R.languages = None if s[0] is None else dict(s[0])
        R.generators = None if s[1] is None else {l: dict(g) for l, g in s[1].items()}
        R.metamodels = dict(s[2])

    def _tag_ep(self):
        # entry-point descriptors are re-created by every reload: tag them by key
        R = self.R
        if R.languages is not None:
            for k, d in R.languages.items():
                if not hasattr(d, "_tok"):
                    d._tok = ("ep", k) if d.project_name is not None else ("?", k)
        if R.generators is not None:
            for l, g in R.generators.items():
                for t, d in g.items():
                    if not hasattr(d, "_tok"):
                        d._tok = ("gen", "ep:%s|%s" % (l, t)) if d.project_name is not None else ("?", l, t)

    def mmtok(self, mm):
        if hasattr(mm, "_tok"):
            return mm._tok
        if isinstance(mm, self.MM):
            # product of an entry-point factory: find which key caches it
            for k, v in self.R.metamodels.items():
                if v is mm:
                    return ("mm", "ep", k)
            return ("mm", "ep", "?uncached")
        return ("mm", "?", type(mm).__name__)

    def desc_tuple(self, d):
        return (d.name, d.pattern, getattr(d, "_tok", ("?",)))

    def apply(self, op):
        R = self.R
        E = R.TextXRegistrationError
        k = op[0]
        try:
            if k == "rl":
                _, n, p, kind, form = op
                label = "%s|%s|%s" % (n, p, kind)
                if kind == "none":
                    mm = None
                elif kind == "inst":
                    if label not in self.insts:
                        m = self.MM()
                        m._tok = ("mm", "inst", label)
                        self.insts[label] = m
                    mm = self.insts[label]
                else:
                    def mm(_label=label, **kw):
                        self.serial += 1
                        m = self.MM()
                        m._tok = ("mm", "fact", _label, "x" if kw else None, self.serial)
                        if kw and kw != {"x": 1}:
                            m._tok = ("mm", "fact", _label, repr(kw), self.serial)
                        return m
                if form == "desc":
                    # a descriptor that names no meta-model is built without the argument (the default of LanguageDesc)
                    d = R.LanguageDesc(n, pattern=p, description="") if kind == "none" else R.LanguageDesc(n, pattern=p, description="", metamodel=mm)
                    d._tok = (kind, label)
                    R.register_language(d)
                else:
                    R.register_language(n, pattern=p, metamodel=mm)
                    for dd in R.languages.values():
                        if dd.metamodel is mm and dd.name == n and not hasattr(dd, "_tok"):
                            dd._tok = (kind, label)
                return ("ok",)
            if k == "cl":
                R.clear_language_registrations()
                return ("ok",)
            if k == "ml":
                kw = {"x": 1} if op[2] else {}
                mm = R.metamodel_for_language(op[1], **kw)
                self._tag_ep()
                return self.mmtok(mm)
            if k == "mf":
                kw = {"x": 1} if op[2] else {}
                mm = R.metamodel_for_file(op[1], **kw)
                self._tag_ep()
                return self.mmtok(mm)
            if k == "msf":
                r = R.metamodels_for_file(op[1])
                self._tag_ep()
                return ("list",) + tuple(self.mmtok(m) for m in r)
            if k == "rg":
                _, l, t, form = op
                if form == "desc":
                    d = R.GeneratorDesc(l, t, generator=_gen)
                    d._tok = ("gen", "%s|%s" % (l, t))
                    R.register_generator(d)
                else:
                    R.register_generator(l, t, generator=_gen)
                    d = R.generators[l.lower()][t.lower()]
                    if not hasattr(d, "_tok"):
                        d._tok = ("gen", "%s|%s" % (l, t))
                return ("ok",)
            if k == "cg":
                R.clear_generator_registrations()
                return ("ok",)
        except E:
            return ("ERR",)
        except Exception as e:
            return ("EXCEPTION", type(e).__name__, str(e)[:100])
        raise HarnessError(op)

    def query(self, q):
        R = self.R
        E = R.TextXRegistrationError
        k = q[0]
        try:
            if k == "ld":
                d = R.language_description(q[1])
                self._tag_ep()
                return self.desc_tuple(d)
            if k == "lsf":
                r = R.languages_for_file(q[1])
                self._tag_ep()
                return ("set",) + tuple(sorted(self.desc_tuple(d) for d in r))
            if k == "lf":
                d = R.language_for_file(q[1])
                self._tag_ep()
                return self.desc_tuple(d)
            if k == "gd":
                _, l, t, anyp = q
                d = R.generator_description(l, t, any_permitted=anyp)
                self._tag_ep()
                g = R.generator_for_language_target(l, t, any_permitted=anyp)
                if g is not d.generator:
                    return ("generator_for_language_target differs",)
                return d._tok
        except E:
            return ("ERR",)
        except Exception as e:
            return ("EXCEPTION", type(e).__name__, str(e)[:100])
        raise HarnessError(q)

    def observe(self):
        """State as observable through the listing API (forces lazy loading)."""
        R = self.R
        cache = {}
        for k, v in R.metamodels.items():
            cache[k] = self.mmtok(v)
        L = R.language_descriptions()
        G = R.generator_descriptions()
        self._tag_ep()
        return (
            {k: self.desc_tuple(d) for k, d in L.items()},
            cache,
            {l: {t: d._tok for t, d in g.items()} for l, g in G.items() if g},
        )


def _gen(*a, **k):
    return None


def _world(tier):
    if "real" not in _W:
        _W["real"] = Real()
        _W["u"] = universe(tier)
        _W["ops"] = ops_of(_W["u"])
        _W["qs"] = queries_of(_W["u"])
    return _W["real"], _W["ops"], _W["qs"]


def _strip_serial(t):
    return t


def step_check(real, ref, op, qs):
    """Apply op to both, compare outcome, state and all queries. Returns (mismatch or None, outcome)."""
    ref.serial = real.serial
    exp = ref.apply(op)
    obs = real.apply(op)
    if obs != exp:
        return {"stage": "outcome", "op": op, "expected": exp, "observed": obs}, obs
    flags = (real.R.languages is None, real.R.generators is None)
    snap = real.snapshot()
    L, cache, G = real.observe()
    if L != ref.L:
        return {"stage": "languages", "op": op, "expected": ref.L, "observed": L}, obs
    if cache != ref.cache:
        return {"stage": "metamodel-cache", "op": op, "expected": ref.cache, "observed": cache}, obs
    if G != {l: g for l, g in ref.G.items() if g}:
        return {"stage": "generators", "op": op, "expected": ref.G, "observed": G}, obs
    for q in qs:
        e = ref.query(q)
        o = real.query(q)
        if e != o:
            return {"stage": "query", "op": op, "query": q, "expected": e, "observed": o}, obs
    if real.snapshot()[2] != snap[2]:
        return {"stage": "query-mutated-cache", "op": op}, obs
    real.restore(snap)
    return None, (obs, flags)


def run_history(real, hist, qs):
    real.reset()
    ref = Ref(real.ep_langs, real.ep_gens)
    for op in hist:
        mis, _ = step_check(real, ref, tuple(op), qs)
        if mis:
            return ref, mis
    return ref, None


def expand(arg):
    """Worker: re-establish each state by replaying its history from reset, then take every
    operation from it (state restored from an in-process snapshot between operations)."""
    tier, hists = arg
    real, ops, qs = _world(tier)
    u = Unit()
    out = []
    for hi, hist in enumerate(hists):
        ref0, mis = run_history(real, hist, [])
        if mis:
            raise HarnessError("prefix diverged on replay: %r %r" % (hist, mis))
        snap = real.snapshot()
        serial = real.serial
        for op in ops:
            real.restore(snap)
            real.serial = serial
            ref = ref0.copy()
            mis, res = step_check(real, ref, op, qs)
            u.transitions += 1
            h = list(hist) + [list(op)]
            if mis:
                u.fail(h, {"history": h, "tier": tier, "mismatch": mis}, what=json.dumps(mis, default=str)[:300])
                continue
            obs, flags = res
            canon = (flags, ref.canon())
            out.append((hi, op, repr(canon), _outcome_class(obs)))
    return ("EXP", out, u.pack())


def _outcome_class(obs):
    if obs == ("ERR",):
        return "ERR"
    if obs == ("ok",):
        return "ok"
    if obs[0] == "list":
        return "list%d" % (len(obs) - 1)
    return ":".join(str(x) for x in obs[:2])


def run(ctx):
    import multiprocessing

    tier = ctx.tier
    real, ops, qs = _world(tier)
    # initial state
    real.reset()
    ref = Ref(real.ep_langs, real.ep_gens)
    init = repr(((True, True), ref.canon()))
    seen = {init: []}
    frontier = [[]]
    depth = 0
    outcomes = {}
    mp = multiprocessing.get_context("fork")
    with mp.Pool(16) as pool:
        while frontier:
            depth += 1
            B = 8
            batches = [(tier, frontier[i:i + B]) for i in range(0, len(frontier), B)]
            import random

            random.Random(ctx.seed + depth).shuffle(batches)
            nxt = []
            results = pool.map(_expand_safe, batches)
            # merge deterministically (independent of completion order): sort by history
            allout = []
            for (t, hs), r in zip(batches, results):
                if r[0] == "HARNESS":
                    ctx.harness_errors.append(r)
                    continue
                _, out, packed = r
                ctx.merge(packed)
                allout.append((hs, out))
            allout.sort(key=lambda x: repr(x[0]))
            for hs, out in allout:
                for hi, op, canon, oc in out:
                    outcomes.setdefault(op[0], set()).add(oc)
                    if canon not in seen:
                        seen[canon] = list(hs[hi]) + [list(op)]
                        nxt.append(seen[canon])
            frontier = nxt
            if ctx.harness_errors:
                break
    ctx.states = len(seen)
    for i, (c, hist) in enumerate(seen.items()):
        ctx.nt.add(hash(c) & 0xFFFFFFFFFFFF)
        if hist and len(ctx.samples) < 3 and len(hist) == depth - 1:
            ctx.samples.append({"history_reaching_a_deepest_state": hist})
    ctx.evaluations = ctx.transitions
    cov = {
        "rule": "state = canonical reference-model state (lower-cased registrations with (name, pattern, kind), "
                "metamodel cache with identity class, generators, lazy-load flags); every operation of the alphabet "
                "is taken from every reachable state; BFS runs to closure (frontier empty).",
        "exhaustive": True,
        "max_depth": depth - 1,
        "operations": len(ops),
        "queries_per_transition": len(qs),
        "distinct_outcomes_per_operation": {k: sorted(v) for k, v in sorted(outcomes.items())},
        "universe": universe(tier),
    }
    return cov, [
        "the only state of textx.registration is its three module globals (languages, generators, metamodels)",
        "entry-point set is constant during the run (discovered at start: %s)" % sorted(real.ep_langs),
        "two states with equal canonical form have equal futures: identity of cached metamodels matters only "
        "relative to the currently cached object, which the canonical form keeps as (registration, kwargs) class",
    ]


def _expand_safe(arg):
    import traceback

    try:
        return expand(arg)
    except BaseException as e:
        return ("HARNESS", "".join(traceback.format_exception(type(e), e, e.__traceback__)), repr(arg)[:300])


def replay(payload):
    real, ops, qs = _world(payload.get("tier", "quick"))
    ref, mis = run_history(real, payload["history"], qs)
    return mis is None, {"mismatch": mis}
