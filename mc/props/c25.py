"""C25 - grammar imports resolve rules in the documented order.

E1: all trees of 3 (thorough: 4) grammar files placed in {root, sub/, sub/deep/}, every import digraph that the relative
import syntax allows (same directory or deeper; cycles, diamonds), every order of the import statements, every assignment
of definitions of the rule names X, Y to files (each definition carries a file-specific keyword).  Every file i also
defines U<i>, which uses X and Y unqualified; the root rule reaches every U<i> through a chain of abstract rules V<k> that follows a spanning tree of the imports.
Oracle: an unqualified name resolves to the current file's rule, else to the first import (in order) defining it, else the
grammar is refused ('Unexisting rule'); decided per file by which keyword the parser accepts and by type(obj)._tx_fqn; one
class object per (file, rule) however often the file is imported; qualified names select the named file's rule.
"""

import itertools
import os
import shutil

from mc import core
from mc.core import Unit, watchdog

ID = "C25"
LEVEL = "exploration"
ENGINE = "E1-bounded-exhaustive-inputs"
TECHNIQUE = "exhaustive enumeration of grammar-file placements x import digraphs x import orders x definition assignments; reference resolver (own file, imports in order, qualified) as oracle"
CLAIM = ("For every placement of the files, every admissible import digraph with every statement order and every assignment of the rule names to "
         "files, the metamodel is built from the files on disk and, for each file, the rule that an unqualified X / Y denotes there is observed "
         "through the keyword the parser accepts and the class of the object produced; qualified access and class identity across import paths "
         "are checked on the same metamodel.")
NOTE = "Trusted: the reference resolver (15 lines). Imports can only address the same directory or sub-directories (textX syntax), which bounds the digraphs."

NAMES = ["X", "Y"]
DIRS = ["", "sub", "sub.deep"]
FILES = ["a", "base", "s"]  # short file names, as users choose them (a.tx, base.tx, s.tx)


def fname(i):
    return FILES[i]


def ns(i, place):
    d = DIRS[place[i]]
    return ("%s.%s" % (d, fname(i))) if d else fname(i)


def rel_import(i, j, place):
    """import name of file j as written in file i, or None if not addressable"""
    di, dj = DIRS[place[i]], DIRS[place[j]]
    if di == dj:
        return fname(j)
    if di == "" or dj.startswith(di + "."):
        rest = dj[len(di):].lstrip(".")
        return "%s.%s" % (rest, fname(j))
    return None


def tree_children(n, imports):
    """spanning tree of the import graph from the root (BFS): k -> children first discovered from k"""
    seen, order, kids = {0}, [0], {k: [] for k in range(n)}
    for k in order:
        for j in imports[k]:
            if j not in seen:
                seen.add(j)
                order.append(j)
                kids[k].append(j)
    return kids


def file_text(i, n, place, imports, defs, strict=True):
    lines = []
    for j in imports[i]:
        lines.append("import %s" % rel_import(i, j, place))
    if i == 0:
        lines.append("Model: us*=V0;")
    kids = tree_children(n, imports)[i]
    lines.append("V%d: %s;" % (i, " | ".join(["U%d" % i] + ["V%d" % j for j in kids])))
    # strict: every file uses both names (an unresolvable one must make the grammar fail); otherwise only the names it can resolve
    body = " ".join("('%s' %s=%s)?" % (nm.lower(), nm.lower(), nm) for nm in NAMES if strict or resolve(i, nm, imports, defs) is not None)
    # AX<i>: a rule whose whole body is the unqualified reference to X (its kind is derived from the rule X denotes in THIS file)
    if resolve(i, "X", imports, defs) is not None:
        body += " ('ax' ax=AX%d)?" % i
        lines.append("AX%d: X;" % i)
    # qualified names: every directly imported file that defines X is also addressed by its namespace, as a rule reference and as a class
    for j in imports[i]:
        if "X" in defs[j]:
            body += " ('qx%d' qx%d=%s.X)? ('rx%d' rx%d=[%s.X])?" % (j, j, ns(j, place), j, j, ns(j, place))
    lines.append("U%d: 'u%d' %s;" % (i, i, body))
    for nm in defs[i]:
        lines.append("%s: '%s%d' v=INT;" % (nm, nm.lower(), i))
    return "\n".join(lines) + "\n"


def resolve(i, nm, imports, defs):
    if nm in defs[i]:
        return i
    for j in imports[i]:
        if nm in defs[j]:
            return j
    return None


def on_stack_only(i, nm, imports, defs, n):
    """is file i's resolution of nm a back reference into a file that is still being imported when i is compiled?"""
    order, stack = [], []

    def visit(k, st):
        if k in order:
            return
        order.append(k)
        for j in imports[k]:
            visit(j, st + [k])
        paths[k] = st if k not in paths else paths[k]
    paths = {}
    visit(0, [])
    tgt = resolve(i, nm, imports, defs)
    return tgt is not None and tgt in paths.get(i, []) and tgt != i


def qualified_on_stack(msg, n, place, imports, defs):
    """the message names '<namespace>.X' of a file that some importer addresses by its qualified name while that file is still being imported
    (the same defect as import_cycle_back_reference: the rules of a grammar on the import stack are not visible yet)"""
    import re as _re

    mt = _re.search(r'"([\w.]+)\.X"', msg)
    if not mt:
        return False
    paths, order = {}, []

    def visit(k, st):
        if k in order:
            return
        order.append(k)
        paths[k] = st
        for j in imports[k]:
            visit(j, st + [k])
    visit(0, [])
    for j in range(n):
        if ns(j, place) == mt.group(1) and "X" in defs[j]:
            if any(j in imports[i] and j in paths.get(i, []) for i in range(n)):
                return True
    return False


def run_case(n, place, imports, defs, strict=True):
    from textx import metamodel_from_file
    from textx.exceptions import TextXError

    d = os.path.join(core.rundir(), "c25-%d" % os.getpid())
    shutil.rmtree(d, ignore_errors=True)
    for sub in ("", "sub", "sub/deep"):
        os.makedirs(os.path.join(d, sub), exist_ok=True)
    reach = {0}
    todo = [0]
    while todo:
        k = todo.pop()
        for j in imports[k]:
            if j not in reach:
                reach.add(j)
                todo.append(j)
    for i in range(n):
        with open(os.path.join(d, DIRS[place[i]].replace(".", "/"), fname(i) + ".tx"), "w") as f:
            f.write(file_text(i, n if i else n, place, imports, defs, strict))
    obs = {"placement": [DIRS[p] or "." for p in place], "imports": imports, "defs": defs, "every_file_uses_both_names": strict}
    # the root reaches U<k> by qualified name: every file must be loaded, i.e. reachable through imports
    if reach != set(range(n)):
        return None, obs, None
    expected_fail = strict and any(resolve(i, nm, imports, defs) is None for i in range(n) for nm in NAMES)
    try:
        mm = metamodel_from_file(os.path.join(d, fname(0) + ".tx"))
    except TextXError as e:
        obs["outcome"] = "TextXError: " + str(e.message)[:100]
        if expected_fail and "Unexisting rule" in e.message:
            return True, obs, None
        key = None
        if "Unexisting rule" in e.message and any(on_stack_only(i, nm, imports, defs, n) for i in range(n) for nm in NAMES):
            key = "import_cycle_back_reference"
        if "Unexisting rule" in e.message and qualified_on_stack(e.message, n, place, imports, defs):
            key = "import_cycle_back_reference"
        return False, obs, key
    except Exception as e:
        obs["outcome"] = "%s: %s" % (type(e).__name__, str(e).replace(d, "<dir>")[:160])
        key = None
        if isinstance(e, KeyError) and any(on_stack_only(i, nm, imports, defs, n) for i in range(n) for nm in NAMES):
            key = "import_cycle_back_reference"
        return False, obs, key
    if expected_fail:
        obs["outcome"] = "metamodel built although a name is unresolvable"
        return False, obs, None
    bad = probe(mm, n, place, imports, defs)
    _LAST["mm"] = (mm, (n, place, imports, defs))
    obs["outcome"] = "metamodel built"
    obs["failures"] = [b[:1] if len(b) == 3 and isinstance(b[1], int) else b for b in bad[:3]]
    key = None
    if bad and all(len(b) == 3 and isinstance(b[1], int) and on_stack_only(b[1], b[2], imports, defs, n) for b in bad):
        key = "import_cycle_back_reference"
    return not bad, obs, key


_LAST = {}


def probe(mm, n, place, imports, defs):
    """which rule does an unqualified X / Y denote in every file of this meta-model (keyword accepted, class of the object)"""
    from textx.exceptions import TextXError

    bad = []
    # the meta-model as a dictionary: an unqualified name is looked up from the root grammar
    for nm in NAMES:
        j = resolve(0, nm, imports, defs)
        try:
            got = mm[nm]._tx_fqn
        except KeyError:
            got = None
        want0 = None if j is None else ns(j, place) + "." + nm
        if got != want0:
            bad.append(("metamodel[%r]" % nm, got, want0))
    for i in range(n):
        for nm in NAMES:
            j = resolve(i, nm, imports, defs)
            for k in range(n):
                if nm not in defs[k]:
                    continue
                text = "u%d %s %s%d 7" % (i, nm.lower(), nm.lower(), k)
                try:
                    m = mm.model_from_str(text)
                    ok = True
                except TextXError:
                    ok = False
                if ok != (k == j):
                    bad.append(("file f%d: unqualified %s accepts keyword of f%d = %s, expected f%d" % (i, nm, k, ok, j), i, nm))
                elif ok:
                    o = getattr(m.us[0], nm.lower())
                    want = ns(j, place) + "." + nm
                    if type(o)._tx_fqn != want:
                        bad.append(("_tx_fqn", type(o)._tx_fqn, want))
                    if type(o) is not mm[want]:
                        bad.append(("class identity differs from the qualified lookup", want))
                    if type(m.us[0])._tx_fqn != ns(i, place) + ".U%d" % i:
                        bad.append(("_tx_fqn of U", type(m.us[0])._tx_fqn))
                    if nm == "X":
                        # the alias rule AX<i> must yield the same class of object
                        try:
                            ma = mm.model_from_str("u%d ax x%d 7" % (i, k))
                            if type(ma.us[0].ax) is not mm[want]:
                                bad.append(("alias rule AX%d yields" % i, type(ma.us[0].ax)._tx_fqn, want))
                        except TextXError as e:
                            bad.append(("alias rule AX%d rejects the keyword of its own X" % i, str(e)[:80]))
    # qualified rule references and qualified class names written in the grammar files
    for i in range(n):
        for j in imports[i]:
            if "X" not in defs[j]:
                continue
            want = ns(j, place) + ".X"
            ucls = mm[ns(i, place) + ".U%d" % i]
            for an in ("qx%d" % j, "rx%d" % j):
                got = ucls._tx_attrs[an].cls
                if got is not mm[want]:
                    bad.append(("attribute %s of U%d written with the qualified name %s has class" % (an, i, want), got._tx_fqn, want))
            for k in range(n):
                if "X" not in defs[k]:
                    continue
                try:
                    m = mm.model_from_str("u%d qx%d x%d 7" % (i, j, k))
                    ok = type(m.us[0].__dict__["qx%d" % j]) is mm[want]
                except TextXError:
                    ok = None
                if (k == j) != bool(ok) or (ok is False):
                    bad.append(("qualified rule reference %s in f%d accepts keyword of f%d = %s" % (want, i, k, ok), want, k))
    return bad


def cases(n, tier):
    places = [p for p in itertools.product(range(3), repeat=n) if p[0] == 0]
    for place in places:
        allowed = [(i, j) for i in range(n) for j in range(n) if i != j and rel_import(i, j, place) is not None]
        for mask in range(2 ** len(allowed)):
            imp = [[] for _ in range(n)]
            for k, (i, j) in enumerate(allowed):
                if mask >> k & 1:
                    imp[i].append(j)
            orders = [list(itertools.permutations(x)) if len(x) > 1 else [tuple(x)] for x in imp]
            for combo in itertools.product(*orders):
                imports = tuple(tuple(c) for c in combo)
                defsets = [(), ("X",), ("X", "Y")] if tier == "thorough" or n < 3 else [(), ("X", "Y")]
                for defs in itertools.product(defsets, repeat=n):
                    yield (n, place, imports, defs, True)
                    if any(resolve(i, nm, imports, defs) is None for i in range(n) for nm in NAMES):
                        yield (n, place, imports, defs, False)


def work(arg):
    cs = arg
    u = Unit()
    for c in cs:
        before = _LAST.get("mm")
        first = probe(*((before[0],) + before[1])) if before else None
        with watchdog(30):
            ok, obs, key = run_case(*c)
        if ok is None:
            continue
        if before is not None and _LAST.get("mm") is not before:
            # history of two meta-models built from equally named grammar files: the earlier one must answer as it did before
            again = probe(*((before[0],) + before[1]))
            u.count("earlier meta-model probed again after the next one was built")
            if again != first:
                u.fail(["history"] + list(c), {"history": [list(before[1]), list(c)]}, sig="earlier meta-model changed",
                       what="meta-model built for %s answers differently after the meta-model for %s was built from files of the same names: before %s, after %s" % (
                           before[1], c, first[:2], again[:2]))
        nimp = sum(len(x) for x in c[2])
        u.case(list(c), nontrivial=nimp > 0, sample=obs if nimp > 2 and obs.get("outcome") == "metamodel built" else None)
        u.count("outcome:" + obs.get("outcome", "?").split(":")[0][:30])
        if not ok:
            u.fail(list(c), {"case": list(c)}, key=key, sig=obs.get("outcome", "")[:40] + str((obs.get("failures") or [[""]])[0][0])[:40], what=str(obs)[:600])
    return u


def run(ctx):
    cs = list(cases(2, ctx.tier)) + list(cases(3, ctx.tier))
    if ctx.tier == "thorough":
        pass
    ctx.pmap(work, [cs[i:i + 40] for i in range(0, len(cs), 40)])
    return {
        "rule": "case = (number of files, placement in root/sub/sub.deep, import lists in statement order, definitions of X/Y per file); all admissible "
                "combinations for 2 and 3 files, once with every file using both names and - where some name is unresolvable somewhere - once with every "
                "file using only the names it can resolve (and an alias rule 'AX<i>: X;'); cases whose files are not all reachable from the root are skipped; non-trivial = at least one import",
        "exhaustive": True, "cases": len(cs),
    }, ["every file i defines U<i> using X and Y unqualified; the root reaches U<i> through abstract rules V<k> along a spanning tree of the import graph",
        "qualified access is checked through metamodel['<namespace>.<Rule>'] and through qualified rule references / qualified class names written in the importing file (namespace = dotted path from the root grammar's directory)"]


def replay(p):
    if "history" in p:
        h = p["history"]
        tup = lambda c: (c[0], tuple(c[1]), tuple(tuple(x) for x in c[2]), tuple(tuple(x) for x in c[3]))
        _LAST.clear()
        run_case(*tup(h[0]))
        before = _LAST["mm"]
        first = probe(*((before[0],) + before[1]))
        c2 = h[1]
        run_case(*(tup(c2) + ((c2[4],) if len(c2) > 4 else ())))
        again = probe(*((before[0],) + before[1]))
        return again == first, {"first": str(first[:2]), "again": str(again[:2])}
    c = p["case"]
    r = run_case(c[0], tuple(c[1]), tuple(tuple(x) for x in c[2]), tuple(tuple(x) for x in c[3]), c[4] if len(c) > 4 else True)
    return bool(r[0]), r[1]
