"""C09 - postponed resolution reaches the right fixpoint and terminates.

E3 (dependency-graph mode): every digraph D over n references ("the provider of reference i
answers Postponed until every reference in D(i) is resolved") x every subset of references
that never resolve x every placement of the references over one or two model files.
Oracle: least fixpoint on D; error lists exactly the complement; call horizon = termination.
"""

import itertools
import os
import re

from mc.core import Unit, watchdog, mkwork, rmwork
from mc.sched import Sched, PlainSched, HorizonExceeded

ID = "C09"
LEVEL = "model_checking"
ENGINE = "E3-environment-answer-schedules"
TECHNIQUE = "exhaustive enumeration of dependency digraphs x never-sets x file placements driving the real resolver; least-fixpoint oracle"
CLAIM = ("Every dependency structure over n references (all labelled digraphs, hence every textual order), every set of references that "
         "never resolve and every split of the references over a main and an imported model file is executed on the real resolution loop. "
         "Success, the resolved targets and the exact set of references named by 'Unresolvable cross references' must equal the least "
         "fixpoint of the dependency relation; a provider-call horizon turns non-termination into a violation.")
NOTE = ("Trusted: the wrapper provider observing 'resolved' as 'attribute no longer None' on the real objects; textual order fixed, "
        "relabelling covered by enumerating all labelled digraphs. More than two files and n beyond the bound are not covered.")

GRAMMAR = """
Model: imports*=Import defs*=Def refs*=Ref;
Import: 'import' importURI=STRING;
Def: 'def' name=ID;
Ref: 'ref' name=ID '->' target=[Def];
"""

_S = {}


def setup(n):
    from mc import core

    if n in _S:
        return
    _S[n] = True
    if "mm" not in _S:
        from textx import metamodel_from_str

        _S["mm"] = metamodel_from_str(GRAMMAR)
    d = _S["dir"] = core.rundir()
    # one "other" file per subset of references placed in the imported file
    for mask in range(1, 2 ** n):
        sel = [i for i in range(n) if mask >> i & 1]
        body = "".join("def t%d\n" % i for i in sel) + "".join("ref r%d -> t%d\n" % (i, i) for i in sel)
        fn = os.path.join(d, "other_%d_%d.m" % (n, mask))
        if not os.path.exists(fn):
            with open(fn + ".%d" % os.getpid(), "w") as f:
                f.write(body)
            os.replace(fn + ".%d" % os.getpid(), fn)


def lfp(n, deps, never):
    R = set()
    changed = True
    while changed:
        changed = False
        for i in range(n):
            if i not in R and i not in never and all(j in R for j in deps[i]):
                R.add(i)
                changed = True
    return R


def run_case(n, dbits, never_mask, place_mask):
    """deps encoded in dbits: bit (i*n+j) set => i waits for j (i != j)."""
    from textx.exceptions import TextXSemanticError, TextXError
    from textx.scoping.providers import PlainNameImportURI

    setup(n)
    deps = [[j for j in range(n) if j != i and dbits >> (i * n + j) & 1] for i in range(n)]
    never = {i for i in range(n) if never_mask >> i & 1}
    R = lfp(n, deps, never)
    seen = {}

    def decide(obj, attr, obj_ref):
        i = int(obj.name[1:])
        seen[i] = obj
        if i in never:
            return True
        for j in deps[i]:
            o = seen.get(j)
            if o is None or o.target is None:
                return True
        return False

    mm = _S["mm"]
    prov = Sched(PlainNameImportURI(), decide, horizon=(n + 2) * n * 2 + 8)
    mm.register_scope_providers({"*.*": prov})
    main = ""
    if place_mask:
        main += 'import "other_%d_%d.m"\n' % (n, place_mask)
    sel = [i for i in range(n) if not place_mask >> i & 1]
    main += "".join("def t%d\n" % i for i in sel) + "".join("ref r%d -> t%d\n" % (i, i) for i in sel)
    obs = {"n": n, "deps": deps, "never": sorted(never), "in_imported_file": [i for i in range(n) if place_mask >> i & 1],
           "expected_resolvable": sorted(R)}
    try:
        if place_mask:
            m = mm.model_from_str(main, file_name=os.path.join(_S["dir"], "main.m"))
        else:
            m = mm.model_from_str(main)
    except HorizonExceeded:
        obs["outcome"] = "provider-call horizon exceeded (non-termination)"
        return False, obs
    except TextXSemanticError as e:
        obs["outcome"] = "error"
        obs["message"] = e.message
        if len(R) == n:
            return False, obs
        if not e.message.startswith("Unresolvable cross references"):
            return False, obs
        named = sorted(re.findall(r'"(\w+)" of class "(\w+)"', e.message))
        expect = sorted(("t%d" % i, "Def") for i in range(n) if i not in R)
        obs["named"] = named
        obs["expected_named"] = expect
        return named == expect, obs
    except Exception as e:  # anything else escaping the load is an observation, not a harness problem
        obs["outcome"] = "other error %s: %s" % (type(e).__name__, e)
        return False, obs
    obs["outcome"] = "success"
    if len(R) != n:
        return False, obs
    models = [m]
    if place_mask:
        models += [x for x in m._tx_model_repository.all_models if x is not m]
    got = {}
    for mod in models:
        for r in mod.refs:
            got[r.name] = getattr(r.target, "name", None)
            if r.target is not None and r.target not in mod.defs:
                got[r.name] = "<foreign object>"
    obs["targets"] = got
    return got == {"r%d" % i: "t%d" % i for i in range(n)}, obs


# ---- second family: a real postponing provider (ExtRelativeName navigates over references that may still be unresolved)
REAL_GRAMMAR = """
Model: stmts*=Stmt;
Stmt: Class | Instance | Call;
Class: 'class' name=ID ('extends' extends+=[Class][','])? '{' methods*=Method '}';
Method: 'm' name=ID;
Instance: 'inst' name=ID ':' type=[Class];
Call: 'call' instance=[Instance] '.' method=[Method];
"""
REAL_STMTS = ["class A extends B , C { m h }", "class B { m f }", "class C { m f m g }", "inst i : A"]
REAL_EXPECT = {"h": "A", "f": "B", "g": "C", "zz": None}  # own methods, then the bases in the order written
REAL_REFS = [("Class", "extends", "B"), ("Class", "extends", "C"), ("Instance", "type", "A"), ("Call", "instance", "i")]


def real_deps():
    """dependency structures between the 4 scheduled references: none, every single edge, every chain (total order)"""
    out = [()]
    out += [((i, j),) for i in range(4) for j in range(4) if i != j]
    out += [tuple((p[k + 1], p[k]) for k in range(3)) for p in itertools.permutations(range(4))]
    return out


def run_real(order, method, edges):
    """order: permutation of the 5 statements (index 4 = the call); edges: (i, j) = reference i of REAL_REFS answers Postponed until j is resolved"""
    from textx import metamodel_from_str
    from textx.exceptions import TextXSemanticError
    from textx.scoping.providers import PlainName, ExtRelativeName

    if "real" not in _S:
        _S["real"] = metamodel_from_str(REAL_GRAMMAR)
    mm = _S["real"]
    seen = {}

    def resolved(j):
        o = seen.get(j)
        if o is None:
            return False
        if j < 2:
            return any(getattr(x, "name", None) == REAL_REFS[j][2] for x in o.extends)
        return getattr(o, REAL_REFS[j][1]) is not None

    def decide(obj, attr, obj_ref):
        key = (type(obj).__name__, attr.name, obj_ref.obj_name)
        if key not in REAL_REFS:
            return False
        i = REAL_REFS.index(key)
        seen[i] = obj
        return any(not resolved(j) for (a, j) in edges if a == i)
    sched = PlainSched(PlainName(), decide, horizon=200)
    mm.register_scope_providers({"*.*": sched, "Call.method": ExtRelativeName("instance.type", "methods", "extends")})
    stmts = REAL_STMTS + ["call i . %s" % method]
    text = "\n".join(stmts[i] for i in order)
    names = ["A.extends[B]", "A.extends[C]", "i.type", "call.instance"]
    obs = {"model": text, "waits_for": ["%s -> %s" % (names[a], names[b]) for a, b in edges], "expected_class_of_method": REAL_EXPECT[method]}
    try:
        m = mm.model_from_str(text)
    except HorizonExceeded:
        obs["outcome"] = "provider-call horizon exceeded (non-termination)"
        return False, obs
    except TextXSemanticError as e:
        obs["outcome"] = "error"
        obs["message"] = e.message[:120]
        return REAL_EXPECT[method] is None and e.message.startswith("Unknown object"), obs
    except Exception as e:
        obs["outcome"] = "other error %s: %s" % (type(e).__name__, e)
        return False, obs
    obs["outcome"] = "success"
    call = next(x for x in m.stmts if type(x).__name__ == "Call")
    got = call.method.parent.name if call.method is not None else None
    obs["class_of_method"] = got
    a = next(x for x in m.stmts if getattr(x, "name", None) == "A")
    obs["extends"] = [c.name for c in a.extends]
    return got == REAL_EXPECT[method] and obs["extends"] == ["B", "C"] and call.instance.type is a, obs


SHAPE_GRAMMAR = (REAL_GRAMMAR.replace("':' type=[Class];", "(':' type=[Class])?;").replace("Stmt: Class |", "Stmt: Iface | Class |")
                 .replace("'{' methods*=Method '}';", "('impl' iface=[Iface])? '{' methods*=Method '}';\nIface: 'iface' name=ID '[' methods*=Method ']';", 1))
SHAPES = {
    # a cycle of 'extends' references: the walk over the base classes must end
    "cyclic-extends": (["class A extends B { m h }", "class B extends A { m f }", "inst i : A"], {"h": "A", "f": "B", "zz": None}),
    "self-extends": (["class A extends A { m h }", "class B { m f }", "inst i : A"], {"h": "A", "f": None}),
    # the optional reference on the provider's path is absent: nothing can be proposed, the name is unknown
    "absent-type": (["class A { m h }", "inst i", "inst k : A"], {"h": None}),
    # the provider's path to the target list crosses a reference (Class.iface) that is answered one round late
    "target-through-reference": (["iface I [ m f ]", "class A impl I { }", "inst i : A"], {"f": "I", "zz": None}),
}


def run_shape(shape, order, method, provider):
    from textx import metamodel_from_str
    from textx.exceptions import TextXSemanticError
    from textx.scoping.providers import ExtRelativeName, RelativeName

    assert SHAPE_GRAMMAR != REAL_GRAMMAR
    if "shape" not in _S:
        _S["shape"] = metamodel_from_str(SHAPE_GRAMMAR)
    mm = _S["shape"]
    if shape == "target-through-reference":
        from textx.scoping.providers import PlainName

        asked = []

        def late(obj, attr, obj_ref):  # Class.iface is postponed when it is asked for the first time
            asked.append(1)
            return len(asked) == 1
        mm.register_scope_providers({"Class.iface": PlainSched(PlainName(), late, horizon=50),
                                     "Call.method": ExtRelativeName("instance.type", "iface.methods", "extends") if provider == "ExtRelativeName"
                                     else RelativeName("instance.type.iface.methods")})
    else:
        mm.register_scope_providers({"Call.method": ExtRelativeName("instance.type", "methods", "extends") if provider == "ExtRelativeName"
                                     else RelativeName("instance.type.methods")})
    stmts, expect = SHAPES[shape]
    stmts = stmts + ["call i . %s" % method]
    text = "\n".join(stmts[i] for i in order)
    exp = expect[method]
    if provider == "RelativeName" and exp not in (None, "A") and shape != "target-through-reference":
        exp = None  # RelativeName does not follow 'extends'
    line = [stmts[i] for i in order].index(stmts[-1]) + 1
    obs = {"shape": shape, "provider": provider, "model": text, "expected_class_of_method": exp}
    try:
        m = mm.model_from_str(text)
    except TextXSemanticError as e:
        obs["outcome"] = "error"
        obs["message"] = "%s (line %s col %s)" % (e.message[:80], e.line, e.col)
        return exp is None and e.message.startswith("Unknown object") and (e.line, e.col) == (line, 10), obs
    except BaseException as e:
        obs["outcome"] = "other error %s: %s" % (type(e).__name__, str(e)[:100])
        return False, obs
    obs["outcome"] = "success"
    call = next(x for x in m.stmts if type(x).__name__ == "Call")
    obs["class_of_method"] = call.method.parent.name
    return obs["class_of_method"] == exp, obs


def work_shape(arg):
    u = Unit()
    for shape, order, method, provider in arg:
        cid = ["provider-shape", shape, list(order), method, provider]
        with watchdog(10):
            ok, obs = run_shape(shape, order, method, provider)
        u.case(cid, nontrivial=True, sample=obs if list(order) == [3, 2, 1, 0] else None)
        u.count("provider-shape outcome:" + obs["outcome"].split(" ")[0])
        u.transitions += 1
        if not ok:
            u.fail(cid, {"shape": shape, "order": list(order), "method": method, "provider": provider}, sig="shape %s %s %s" % (shape, provider, obs["outcome"][:25]),
                   what=repr(obs)[:500])
    return u


# ---- RREL chain walking THROUGH a reference that holds a '+p:' proxy; the proxied object's own reference resolves a round later
PROXY_GRAMMAR = r"""
Model: (structs+=Struct | aliases+=Alias | refs+=Ref | holders+=Holder | insts+=Inst)*;
Struct: 'struct' name=ID '{' vals*=Val '}';
Val: 'val' name=ID;
Alias: 'alias' name=ID '=' struct=[Struct];
Ref: 'ref' holder=[Holder] '.' val=[Val|ID|.~holder.~inst.~type.vals];
Holder: 'holder' name=ID '=' inst=[Inst|ID|%sinsts];
Inst: 'inst' name=ID ':' type=[Struct|ID|aliases.~struct];
"""
PROXY_STMTS = ["struct S { val v }", "alias A = S", "ref h.v", "holder h = i", "inst i : A"]


def run_proxy_chain(flag, order):
    from textx import metamodel_from_str
    from textx.exceptions import TextXSemanticError

    if ("proxy", flag) not in _S:
        _S[("proxy", flag)] = metamodel_from_str(PROXY_GRAMMAR % flag)
    text = "\n".join(PROXY_STMTS[i] for i in order)
    obs = {"rrel_of_Holder.inst": flag + "insts", "model": text}
    try:
        m = _S[("proxy", flag)].model_from_str(text)
    except TextXSemanticError as e:
        obs["outcome"] = "error"
        obs["message"] = e.message[:100]
        return False, obs
    except BaseException as e:
        obs["outcome"] = "other error %s: %s" % (type(e).__name__, str(e)[:100])
        return False, obs
    obs["outcome"] = "success"
    v = m.refs[0].val
    obs["val"] = getattr(v, "name", None)
    return obs["val"] == "v" and v.parent is m.structs[0], obs


# ---- RREL path over a MULTI-VALUED reference of which some elements are resolved and others still pending -----------------
PARTIAL_GRAMMAR = r"""
Model: (classes+=Class | aliases+=Alias | calls+=Call)*;
Class: 'class' name=ID ('extends' extends+=[Class|ID|classes,aliases.~cls][','])? '{' methods*=Method '}';
Alias: 'alias' name=ID '=' cls=[Class];
Method: 'm' name=ID;
Call: 'call' c=[Class] '.' m=[Method|ID|.~c.~extends*.methods];
"""
PARTIAL_STMTS = ["class B { m v }", "class C { m w m v }", "alias CA = C", "class A extends B , CA { }", "call A . %s"]
PARTIAL_EXPECT = {"w": "C", "v": "B", "zz": None}


def run_partial_list(method, order):
    from textx import metamodel_from_str
    from textx.exceptions import TextXSemanticError

    if "partial" not in _S:
        _S["partial"] = metamodel_from_str(PARTIAL_GRAMMAR)
    stmts = PARTIAL_STMTS[:4] + [PARTIAL_STMTS[4] % method]
    text = "\n".join(stmts[i] for i in order)
    obs = {"family": "partially resolved reference list", "model": text, "expected_class_of_method": PARTIAL_EXPECT[method]}
    try:
        m = _S["partial"].model_from_str(text)
    except TextXSemanticError as e:
        obs["outcome"] = "error"
        obs["message"] = e.message[:100]
        return PARTIAL_EXPECT[method] is None and e.message.startswith("Unknown object"), obs
    except BaseException as e:
        obs["outcome"] = "other error %s: %s" % (type(e).__name__, str(e)[:100])
        return False, obs
    obs["outcome"] = "success"
    obs["class_of_method"] = m.calls[0].m.parent.name
    a = next(c for c in m.classes if c.name == "A")
    obs["extends"] = [c.name for c in a.extends]
    return obs["class_of_method"] == PARTIAL_EXPECT[method] and obs["extends"] == ["B", "C"], obs


def work_proxy(arg):
    u = Unit()
    for flag, order in arg:
        cid = ["proxy-chain", flag, list(order)]
        with watchdog(10):
            ok, obs = run_partial_list(flag[8:], order) if flag.startswith("partial:") else run_proxy_chain(flag, order)
        u.case(cid, nontrivial=True, sample=obs if list(order) == [2, 3, 4, 1, 0] else None)
        u.count("proxy-chain outcome:" + obs["outcome"].split(" ")[0])
        u.transitions += 1
        if not ok:
            u.fail(cid, {"proxy": flag, "order": list(order)}, sig="proxy-chain %r %s" % (flag, obs["outcome"][:25]), what=repr(obs)[:500])
    return u


def work_real(arg):
    cases = arg
    u = Unit()
    for order, method, edges in cases:
        cid = ["real-provider", list(order), method, [list(e) for e in edges]]
        with watchdog(10):
            ok, obs = run_real(order, method, edges)
        u.case(cid, nontrivial=bool(edges) or list(order) != sorted(order), sample=obs if len(edges) > 1 else None)
        u.count("real-provider outcome:" + obs["outcome"].split(" ")[0])
        u.transitions += 1
        if not ok:
            u.fail(cid, {"real": True, "order": list(order), "method": method, "edges": [list(e) for e in edges]}, sig="real-provider %s %s" % (method, obs["outcome"][:20]),
                   what="%r waits_for=%s -> %s %s (expected the method of class %s)" % (
                       obs["model"], obs["waits_for"], obs["outcome"], obs.get("message", obs.get("class_of_method")), obs["expected_class_of_method"]))
    return u


def work(arg):
    n, dlist, full = arg
    u = Unit()
    for dbits in dlist:
        for never_mask in range(2 ** n):
            for place_mask in (range(2 ** n) if full else (0, 1, 2 ** n - 1, 2 ** (n - 1))):
                cid = [n, dbits, never_mask, place_mask]
                with watchdog(10):
                    ok, obs = run_case(n, dbits, never_mask, place_mask)
                nt = bool(dbits) or bool(never_mask)
                u.case(cid, nontrivial=nt, sample=obs if (dbits and never_mask and place_mask) else None)
                u.count("outcome:" + obs["outcome"].split(" ")[0])
                u.transitions += 1
                if not ok:
                    u.fail(cid, {"n": n, "dbits": dbits, "never_mask": never_mask, "place_mask": place_mask},
                           what="deps=%s never=%s imported=%s -> %s %s (expected resolvable %s)" % (
                               obs["deps"], obs["never"], obs["in_imported_file"], obs["outcome"], obs.get("named", obs.get("targets", "")), obs["expected_resolvable"]))
    return u


def digraphs(n):
    bits = [i * n + j for i in range(n) for j in range(n) if i != j]
    for combo in range(2 ** len(bits)):
        d = 0
        for k, b in enumerate(bits):
            if combo >> k & 1:
                d |= 1 << b
        yield d


def run(ctx):
    if ctx.tier == "quick":
        plan = [(2, True), (3, True)]
    else:
        plan = [(2, True), (3, True), (4, False)]
    units = []
    for n, full in plan:
        setup(n)  # files are written by the parent before the workers are forked
        ds = list(digraphs(n))
        B = 4 if n < 4 else 16
        units += [(n, ds[i:i + B], full) for i in range(0, len(ds), B)]
    ctx.pmap(work, units)
    real = [(order, meth, edges) for order in itertools.permutations(range(5)) for meth in REAL_EXPECT for edges in real_deps()]
    ctx.pmap(work_real, [real[i:i + 200] for i in range(0, len(real), 200)])
    pc = [(flag, order) for flag in ("", "+p:") for order in itertools.permutations(range(5))]
    pc += [("partial:" + meth, order) for meth in PARTIAL_EXPECT for order in itertools.permutations(range(5))]
    ctx.pmap(work_proxy, [pc[i:i + 40] for i in range(0, len(pc), 40)])
    shapes = [(sh, order, method, prov) for sh, (st, expect) in SHAPES.items() for order in itertools.permutations(range(4)) for method in expect
              for prov in ("ExtRelativeName", "RelativeName")]
    ctx.pmap(work_shape, [shapes[i:i + 48] for i in range(0, len(shapes), 48)])
    ctx.states = ctx.evaluations
    return {
        "rule": "case = (n, dependency digraph, never-set, set of references placed in the imported file); all labelled digraphs without "
                "self loops (a self loop is the never-set); non-trivial = at least one dependency edge or never-resolving reference. "
                "states = resolver runs, transitions = runs (each run is one complete schedule of provider answers). Second family (real postponing "
                "provider ExtRelativeName over an inheritance model): every order of the 5 statements x method looked up {own, first base, second base, "
                "unknown} x dependency structures between the 4 references it navigates over (none, every single edge, every chain)",
        "exhaustive": True,
        "plan": [{"n": n, "placements": "all 2^n" if full else "4 representative (none, first, all, last)"} for n, full in plan],
    }, ["a reference counts as resolved when its attribute on the real object is no longer None",
        "n=4 enumerates all 4096 digraphs x 16 never-sets with 4 placements (all-in-main, one in import, all in import, last in import)"]


def replay(p):
    if "proxy" in p:
        if p["proxy"].startswith("partial:"):
            return run_partial_list(p["proxy"][8:], tuple(p["order"]))
        return run_proxy_chain(p["proxy"], tuple(p["order"]))
    if "shape" in p:
        return run_shape(p["shape"], tuple(p["order"]), p["method"], p["provider"])
    if p.get("real"):
        return run_real(tuple(p["order"]), p["method"], tuple(tuple(e) for e in p["edges"]))
    return run_case(p["n"], p["dbits"], p["never_mask"], p["place_mask"])
