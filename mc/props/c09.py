"""C09 - postponed resolution reaches the right fixpoint and terminates.

E3 (dependency-graph mode): every digraph D over n references ("the provider of reference i
answers Postponed until every reference in D(i) is resolved") x every subset of references
that never resolve x every placement of the references over one or two model files.
Oracle: least fixpoint on D; error lists exactly the complement; call horizon = termination.
"""

import itertools
import os
import re

from mc.core import Unit, watchdog, mkwork, rmwork
from mc.sched import Sched, HorizonExceeded

ID = "C09"
LEVEL = "model_checking"
ENGINE = "E3-environment-answer-schedules"
TECHNIQUE = "exhaustive enumeration of dependency digraphs x never-sets x file placements driving the real resolver; least-fixpoint oracle"
CLAIM = ("Every dependency structure over n references (all labelled digraphs, hence every textual order), every set of references that "
         "never resolve and every split of the references over a main and an imported model file is executed on the real resolution loop. "
         "Success, the resolved targets and the exact set of references named by 'Unresolvable cross references' must equal the least "
         "fixpoint of the dependency relation; a provider-call horizon turns non-termination into a violation.")
NOTE = ("Trusted: the wrapper provider observing 'resolved' as 'attribute no longer None' on the real objects; textual order fixed, "
        "relabelling covered by enumerating all labelled digraphs. More than two files and n beyond the bound are not covered.")

GRAMMAR = """
Model: imports*=Import defs*=Def refs*=Ref;
Import: 'import' importURI=STRING;
Def: 'def' name=ID;
Ref: 'ref' name=ID '->' target=[Def];
"""

_S = {}


def setup(n):
    from mc import core

    if n in _S:
        return
    _S[n] = True
    if "mm" not in _S:
        from textx import metamodel_from_str

        _S["mm"] = metamodel_from_str(GRAMMAR)
    d = _S["dir"] = core.rundir()
    # one "other" file per subset of references placed in the imported file
    for mask in range(1, 2 ** n):
        sel = [i for i in range(n) if mask >> i & 1]
        body = "".join("def t%d\n" % i for i in sel) + "".join("ref r%d -> t%d\n" % (i, i) for i in sel)
        fn = os.path.join(d, "other_%d_%d.m" % (n, mask))
        if not os.path.exists(fn):
            with open(fn + ".%d" % os.getpid(), "w") as f:
                f.write(body)
            os.replace(fn + ".%d" % os.getpid(), fn)


def lfp(n, deps, never):
    R = set()
    changed = True
    while changed:
        changed = False
        for i in range(n):
            if i not in R and i not in never and all(j in R for j in deps[i]):
                R.add(i)
                changed = True
    return R


def run_case(n, dbits, never_mask, place_mask):
    """deps encoded in dbits: bit (i*n+j) set => i waits for j (i != j)."""
    from textx.exceptions import TextXSemanticError, TextXError
    from textx.scoping.providers import PlainNameImportURI

    setup(n)
    deps = [[j for j in range(n) if j != i and dbits >> (i * n + j) & 1] for i in range(n)]
    never = {i for i in range(n) if never_mask >> i & 1}
    R = lfp(n, deps, never)
    seen = {}

    def decide(obj, attr, obj_ref):
        i = int(obj.name[1:])
        seen[i] = obj
        if i in never:
            return True
        for j in deps[i]:
            o = seen.get(j)
            if o is None or o.target is None:
                return True
        return False

    mm = _S["mm"]
    prov = Sched(PlainNameImportURI(), decide, horizon=(n + 2) * n * 2 + 8)
    mm.register_scope_providers({"*.*": prov})
    main = ""
    if place_mask:
        main += 'import "other_%d_%d.m"\n' % (n, place_mask)
    sel = [i for i in range(n) if not place_mask >> i & 1]
    main += "".join("def t%d\n" % i for i in sel) + "".join("ref r%d -> t%d\n" % (i, i) for i in sel)
    obs = {"n": n, "deps": deps, "never": sorted(never), "in_imported_file": [i for i in range(n) if place_mask >> i & 1],
           "expected_resolvable": sorted(R)}
    try:
        if place_mask:
            m = mm.model_from_str(main, file_name=os.path.join(_S["dir"], "main.m"))
        else:
            m = mm.model_from_str(main)
    except HorizonExceeded:
        obs["outcome"] = "provider-call horizon exceeded (non-termination)"
        return False, obs
    except TextXSemanticError as e:
        obs["outcome"] = "error"
        obs["message"] = e.message
        if len(R) == n:
            return False, obs
        if not e.message.startswith("Unresolvable cross references"):
            return False, obs
        named = sorted(re.findall(r'"(\w+)" of class "(\w+)"', e.message))
        expect = sorted(("t%d" % i, "Def") for i in range(n) if i not in R)
        obs["named"] = named
        obs["expected_named"] = expect
        return named == expect, obs
    except Exception as e:  # anything else escaping the load is an observation, not a harness problem
        obs["outcome"] = "other error %s: %s" % (type(e).__name__, e)
        return False, obs
    obs["outcome"] = "success"
    if len(R) != n:
        return False, obs
    models = [m]
    if place_mask:
        models += [x for x in m._tx_model_repository.all_models if x is not m]
    got = {}
    for mod in models:
        for r in mod.refs:
            got[r.name] = getattr(r.target, "name", None)
            if r.target is not None and r.target not in mod.defs:
                got[r.name] = "<foreign object>"
    obs["targets"] = got
    return got == {"r%d" % i: "t%d" % i for i in range(n)}, obs


def work(arg):
    n, dlist, full = arg
    u = Unit()
    for dbits in dlist:
        for never_mask in range(2 ** n):
            for place_mask in (range(2 ** n) if full else (0, 1, 2 ** n - 1, 2 ** (n - 1))):
                cid = [n, dbits, never_mask, place_mask]
                with watchdog(10):
                    ok, obs = run_case(n, dbits, never_mask, place_mask)
                nt = bool(dbits) or bool(never_mask)
                u.case(cid, nontrivial=nt, sample=obs if (dbits and never_mask and place_mask) else None)
                u.count("outcome:" + obs["outcome"].split(" ")[0])
                u.transitions += 1
                if not ok:
                    u.fail(cid, {"n": n, "dbits": dbits, "never_mask": never_mask, "place_mask": place_mask},
                           what="deps=%s never=%s imported=%s -> %s %s (expected resolvable %s)" % (
                               obs["deps"], obs["never"], obs["in_imported_file"], obs["outcome"], obs.get("named", obs.get("targets", "")), obs["expected_resolvable"]))
    return u


def digraphs(n):
    bits = [i * n + j for i in range(n) for j in range(n) if i != j]
    for combo in range(2 ** len(bits)):
        d = 0
        for k, b in enumerate(bits):
            if combo >> k & 1:
                d |= 1 << b
        yield d


def run(ctx):
    if ctx.tier == "quick":
        plan = [(2, True), (3, True)]
    else:
        plan = [(2, True), (3, True), (4, False)]
    units = []
    for n, full in plan:
        setup(n)  # files are written by the parent before the workers are forked
        ds = list(digraphs(n))
        B = 4 if n < 4 else 16
        units += [(n, ds[i:i + B], full) for i in range(0, len(ds), B)]
    ctx.pmap(work, units)
    ctx.states = ctx.evaluations
    return {
        "rule": "case = (n, dependency digraph, never-set, set of references placed in the imported file); all labelled digraphs without "
                "self loops (a self loop is the never-set); non-trivial = at least one dependency edge or never-resolving reference. "
                "states = resolver runs, transitions = runs (each run is one complete schedule of provider answers)",
        "exhaustive": True,
        "plan": [{"n": n, "placements": "all 2^n" if full else "4 representative (none, first, all, last)"} for n, full in plan],
    }, ["a reference counts as resolved when its attribute on the real object is no longer None",
        "n=4 enumerates all 4096 digraphs x 16 never-sets with 4 placements (all-in-main, one in import, all in import, last in import)"]


def replay(p):
    return run_case(p["n"], p["dbits"], p["never_mask"], p["place_mask"])
