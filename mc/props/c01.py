"""C01 - the compiled parser and model follow the grammar's PEG semantics.

E1: every grammar AST of the fragment up to k nodes x every token string up to L tokens over the
grammar's own token alphabet x renderings x configurations; oracle = RefPEG (independent reference
interpreter of the documented semantics); comparison of accept/reject and canonical model dumps.
"""

import json

from mc import refpeg, gramgen, diff
from mc.core import Unit, HarnessError

ID = "C01"
LEVEL = "exploration"
ENGINE = "E1-bounded-exhaustive-inputs"
TECHNIQUE = ("bounded-exhaustive enumeration of grammar ASTs x token strings x configurations; differential execution of the real "
             "grammar compiler + model builder against an independent reference PEG interpreter (RefPEG)")
CLAIM = ("Every grammar of the fragment (DESIGN.md 3) with up to k AST nodes in the root rule, plus the multi-rule family with rule "
         "modifiers and Comment rules, is compiled by the real textX and run on every token string up to L tokens over its own alphabet "
         "(several renderings, configurations skipws/ws/auto_init_attributes/use_regexp_group); acceptance and the canonical model dump "
         "(classes, attribute values with Python types, lists, defaults, nesting) must equal RefPEG's. Exhaustive within the bounds.")
NOTE = ("Trusted: RefPEG (mc/refpeg.py, no import of textx/arpeggio; validated against the worked examples of docs/src/grammar.md before "
        "every run) and Python's re. Constructs of DESIGN.md 3.2 (node-nullable alternatives and repetition bodies) are outside the fragment.")

CONFIGS = [
    ("base", {}, [" "], 9),
    ("nojoin", {}, [""], 9),
    ("noskipws", {"skipws": False}, ["", " "], 2),
    ("noinit", {"auto_init_attributes": False}, [" "], 2),
]


def selfcheck():
    from mc import refdocs

    bad = refdocs.check()
    if bad:
        raise HarnessError("RefPEG does not reproduce documented examples: %r" % (bad[:3],))


def relevant(cfgname, grammar):
    if cfgname == "noinit":
        return any(x[0] == "asg" for r in grammar for x in refpeg.walk(r[2]))
    return True


def run_grammar(grammar, L, u, family, cfgs=CONFIGS, extra_inputs=(), cap=400):
    gtext = refpeg.to_text(grammar)
    alpha = gramgen.alphabet(grammar)
    toks = list(gramgen.inputs(alpha, L, cap)) + [tuple(t) for t in extra_inputs]
    for cfgname, cfg, joiners, maxtok in cfgs:
        if not relevant(cfgname, grammar):
            continue
        interp, mm, err = diff.compile_both(grammar, cfg)
        gid = [family, gtext, cfgname]
        if err is not None:
            u.case(gid, nontrivial=False)
            u.count("grammar refused")
            u.fail(gid, {"grammar": grammar, "cfg": cfg, "input": None}, key=classify_compile(err),
                   what="grammar of the fragment refused: %s :: %s" % (gtext.replace("\n", " "), err))
            continue
        u.count("grammars x configs")
        for t in toks:
            if len(t) > maxtok:
                continue
            for j in joiners:
                if len(t) < 2 and j != joiners[0]:
                    continue
                text = j.join(t)
                agree, r, i = diff.compare(interp, mm, text)
                cid = [family, gtext, cfgname, text]
                u.case(cid, nontrivial=(r[0] == "accept"),
                       sample={"grammar": gtext, "cfg": cfg, "input": text, "reference": r, "implementation": i} if r[0] == "accept" and len(t) > 1 else None)
                u.count("ref:" + r[0])
                if not agree:
                    u.fail(cid, {"grammar": grammar, "cfg": cfg, "input": text}, key=classify(grammar, cfg, text, r, i), sig=signature(grammar, r, i),
                           what="%s | cfg=%s | input=%r | reference=%s | implementation=%s" % (
                               gtext.replace("\n", " "), cfg, text, json.dumps(r)[:200], json.dumps(i)[:200]))


def signature(grammar, r, i):
    import re

    m = refpeg.rule_text(grammar[0])
    sk = re.sub(r"'[^']*'", "LIT", m)
    sk = re.sub(r"/[^/]*/", "RE", sk)
    sk = re.sub(r"\b(INT|ID|STRING)\b", "BT", sk)
    sk = re.sub(r"\b[pq]\b", "p", sk)
    return "%s ref=%s impl=%s" % (sk, r[0], i[0])


def classify_compile(err):
    return None


def classify(grammar, cfg, text, r, i):
    return diff.attribute(grammar, cfg, text, i)


def run_texts(grammar, cfg, texts, u, family, label=""):
    """generic differential loop used by C20 / C21 / C22: explicit list of rendered inputs"""
    gtext = refpeg.to_text(grammar)
    interp, mm, err = diff.compile_both(grammar, cfg)
    gid = [family, gtext, json.dumps(cfg, sort_keys=True)]
    if err is not None:
        u.case(gid, nontrivial=False)
        u.fail(gid, {"grammar": grammar, "cfg": cfg, "input": None}, sig="compile:" + err[:50],
               what="grammar of the fragment refused: %s :: %s" % (gtext.replace("\n", " "), err))
        return None, None
    u.count("grammars x configs")
    for text in texts:
        agree, r, i = diff.compare(interp, mm, text)
        cid = gid + [text]
        u.case(cid, nontrivial=(r[0] == "accept"),
               sample={"grammar": gtext, "cfg": cfg, "input": text, "reference": r, "implementation": i} if r[0] == "accept" and len(text) > 2 else None)
        u.count("ref:" + r[0])
        if not agree:
            u.fail(cid, {"grammar": grammar, "cfg": cfg, "input": text}, key=classify(grammar, cfg, text, r, i),
                   sig="%s %s ref=%s impl=%s" % (family, label or signature(grammar, r, i), r[0], i[0]),
                   what="%s | cfg=%s | input=%r | reference=%s | implementation=%s" % (
                       gtext.replace("\n", " "), cfg, text, json.dumps(r)[:200], json.dumps(i)[:200]))
    return interp, mm


def work(arg):
    family, tier, L, bodies = arg
    u = Unit()
    for body in bodies:
        g = gramgen.grammar_for(body)
        run_grammar(g, L, u, family)
    return u


RULE_CONFIGS = [("base", {}), ("noskipws", {"skipws": False}), ("ws-space", {"ws": " "}),
                # skipping off globally with a custom whitespace set: only observable where a rule switches skipping back on
                ("noskipws+ws-space", {"skipws": False, "ws": " "})]


def run_rules_grammar(label, grammar, tier, u, cfgs=RULE_CONFIGS):
    gtext = refpeg.to_text(grammar)
    alpha = gramgen.alphabet(grammar, foreign=False)
    has_nl = any(r[1].get("ws") == "\n" for r in grammar) or "eolterm" in gtext
    joiners = ["", " "] + (["\n"] if has_nl or tier == "thorough" else [])
    cm = [r for r in grammar if r[0] == "Comment"]
    if cm:
        joiners.append(" #z\n" if "#" in cm[0][2][1] else "/*z*/")
    toks = list(gramgen.inputs(alpha, 3, 70 if tier == "quick" else 160))
    for cfgname, cfg in cfgs:
        if cfgname == "noskipws+ws-space" and not any(r[1].get("skipws") is True for r in grammar):
            continue
        interp, mm, err = diff.compile_both(grammar, cfg)
        gid = ["rules", gtext, cfgname]
        if err is not None:
            u.case(gid, nontrivial=False)
            u.fail(gid, {"grammar": grammar, "cfg": cfg, "input": None}, sig="compile:" + err[:60],
                   what="grammar of the fragment refused: %s :: %s" % (gtext.replace("\n", " "), err))
            continue
        u.count("rules-family grammars x configs")
        for t in toks:
            for text in gramgen.layouts(t, joiners):
                agree, r, i = diff.compare(interp, mm, text)
                cid = ["rules", gtext, cfgname, text]
                u.case(cid, nontrivial=(r[0] == "accept"),
                       sample={"grammar": gtext, "cfg": cfg, "input": text, "reference": r, "implementation": i} if r[0] == "accept" and len(t) > 2 else None)
                u.count("ref:" + r[0])
                if not agree:
                    u.fail(cid, {"grammar": grammar, "cfg": cfg, "input": text}, key=classify(grammar, cfg, text, r, i),
                           sig="rules:%s ref=%s impl=%s" % (label, r[0], i[0]),
                           what="%s | cfg=%s | input=%r | reference=%s | implementation=%s" % (
                               gtext.replace("\n", " "), cfg, text, json.dumps(r)[:200], json.dumps(i)[:200]))


def work_rules(arg):
    tier, items = arg
    u = Unit()
    for label, g in items:
        run_rules_grammar(label, g, tier, u)
    return u


def work_rec(arg):
    """rule graphs with chains and cycles of abstract rules (the grammars of C03); here only verdict and model dump are compared"""
    tier, gs = arg
    u = Unit()
    for g in gs:
        alpha = gramgen.alphabet(g, foreign=False)
        run_texts(g, {}, [" ".join(t) for t in gramgen.inputs(alpha, 3, 120)], u, "rec", label="rule-graph")
    return u


REGEXES = {"xyz": ["xyz"], "x(y)z": ["xyz"], "a(x)b|c(y)d": ["axb", "cyd"], "x((y)z)": ["xyz"], "(?:x)(y)z": ["xyz"], "(x)|y(z)": ["x", "yz"]}


def regex_family():
    """regular expressions with 0, 1 and 2 groups in every position where use_regexp_group may apply, and the multi-group base types"""
    A = gramgen.A_
    RE, REF, L, SEQ = gramgen.RE, gramgen.REF, gramgen.L, gramgen.SEQ
    for pat, samples in REGEXES.items():
        texts = samples + ["q", " ".join(samples + samples[:1])]
        yield [("M", {}, A("p", "=", RE(pat)))], texts
        yield [("M", {}, A("p", "+=", RE(pat)))], texts
        yield [("M", {}, A("p", "=", REF("V"))), ("V", {}, RE(pat))], texts
        # the regex is one alternative of a match rule (the matched alternative is still a single regular expression)
        yield [("M", {}, A("p", "=", REF("V"))), ("V", {}, gramgen.ALT(RE(pat), L("q")))], texts
        yield [("M", {}, A("p", "+=", REF("V"))), ("V", {}, gramgen.ALT(L("q"), RE(pat)))], texts
        # (a grouped regex inside the concatenated value of an enclosing match rule is not enumerated: the documentation does not say
        #  whether the group or the whole match is concatenated - DESIGN.md 3.3)
        for bt, vals in (("FLOAT", ["-1.5", "1e3", "+.5e-2"]), ("NUMBER", ["-7", "-1.5"]), ("BOOL", ["true", "0"]), ("STRING", ['"s"', "'t'"])):
            yield [("M", {}, SEQ(A("p", "=", RE(pat)), A("q", "=", REF(bt))))], ["%s %s" % (x, v) for x in samples for v in vals]


def refpeg_can_print(g):
    try:
        refpeg.to_text(g)
        return True
    except Exception:
        return False


def matchsep_family():
    """a match rule (or a group) ending in a separated repetition, followed by one more separator that belongs to the caller; suppression written
    inside single-element parentheses"""
    A = gramgen.A_
    RE, REF, L, SEQ, ALT = gramgen.RE, gramgen.REF, gramgen.L, gramgen.SEQ, gramgen.ALT
    for rep in ("plus", "star"):
        for sep, s in ((L("."), "."), (RE(",|;"), ",")):
            F = ("F", {}, (rep, REF("ID"), sep, False) if rep == "plus" else SEQ(L("f"), (rep, REF("ID"), sep, False)))
            lead = [] if rep == "plus" else ["f"]
            texts = [" ".join(lead + t) for t in (["x"], ["x", s, "x"], ["x", s, "x", s, "k"], ["x", s, "k"], ["x", s], [s, "k"], ["x", s, "x", s])]
            yield [("M", {}, SEQ(A("n", "=", REF("F")), ("opt", SEQ(sep, A("all", "?=", L("k")))))), F], texts
            yield [("M", {}, SEQ(A("n", "+=", REF("F")), ("opt", SEQ(sep, L("k"))))), F], texts
    # the match rule itself goes on after the repetition with the separator's text (the given-back separator is followed by another node)
    for sep, s_ in ((L("."), "."), (RE(",|;"), ",")):
        F = ("F", {}, SEQ(("plus", REF("INT"), sep, False), sep if sep[0] == "lit" else L(","), L("e")))
        texts = ["7 %s 0 %s e" % (s_, s_), "7%s0%se" % (s_, s_), "7 %s e" % s_, "7  %s  0  %s  e" % (s_, s_), "7 %s 0 e" % s_]
        yield [("M", {}, A("n", "=", REF("F"))), F], texts
        yield [("M", {}, A("n", "+=", REF("F"))), F], texts
    # suppression inside parentheses around a single element
    q = L("q")
    yield [("M", {}, A("v", "=", REF("Q"))), ("Q", {}, SEQ(("sup", q), REF("ID"), ("sup", q)))], ["q x q", "qxq", "x", "q x"]
    yield [("M", {}, A("v", "=", REF("Q"))), ("Q", {}, SEQ(("grp", ("sup", q)), REF("ID"), ("grp", ("sup", q))))], ["q x q", "qxq", "x", "q x"]


def work_regex(arg):
    u = Unit()
    for g, texts in arg:
        for cfg in ({}, {"use_regexp_group": True}, {"use_regexp_group": True, "auto_init_attributes": False}):
            run_texts(g, cfg, texts, u, "regex-group", label="regex-group")
    return u


def plan(tier):
    if tier == "quick":
        return [(1, 3), (2, 3), (3, 2)]
    return [(1, 4), (2, 4), (3, 3), (4, 2)]


def run(ctx):
    selfcheck()
    units = []
    nb = {}
    for size, L in plan(ctx.tier):
        bs = [b for b in gramgen.bodies(ctx.tier, size) if gramgen.valid(b)]
        nb[size] = len(bs)
        B = 20 if size < 3 else 40
        units += [("expr%d" % size, ctx.tier, L, bs[i:i + B]) for i in range(0, len(bs), B)]
    ctx.pmap(work, units)
    fr = list(gramgen.frules(ctx.tier))
    ctx.pmap(work_rules, [(ctx.tier, fr[i:i + 10]) for i in range(0, len(fr), 10)])
    nb["rules-family"] = len(fr)
    from mc.props import c03

    rec = [g for n in (1, 2) for g in c03.grammars(n, ctx.tier)]
    ctx.pmap(work_rec, [(ctx.tier, rec[i:i + 25]) for i in range(0, len(rec), 25)])
    nb["rule-graph-family"] = len(rec)
    rg = list(regex_family())
    rg += [x for x in matchsep_family() if refpeg_can_print(x[0])]
    ctx.pmap(work_regex, [rg[i:i + 6] for i in range(0, len(rg), 6)])
    nb["regex-group-family"] = len(rg)
    return {
        "rule": "case = (grammar text, configuration, rendered input); grammars = all root bodies with exactly k nodes from the tier's "
                "alphabet passing the well-formedness filter; inputs = all token strings up to L tokens over the grammar's own alphabet "
                "(capped count lowers L, see counters); non-trivial = the reference accepts the input (a model is built and compared)",
        "exhaustive": True,
        "plan_nodes_maxtokens": plan(ctx.tier),
        "bodies_per_size": nb,
        "configs": [c[0] for c in CONFIGS],
    }, ["reference conventions of DESIGN.md 3.3"]


def replay(p):
    g = totuple(p["grammar"])
    interp, mm, err = diff.compile_both(g, p["cfg"])
    if err is not None:
        return False, {"grammar": refpeg.to_text(g), "compile_error": err}
    agree, r, i = diff.compare(interp, mm, p["input"])
    return agree, {"grammar": refpeg.to_text(g), "cfg": p["cfg"], "input": p["input"], "reference": r, "implementation": i}


def totuple(x):
    if isinstance(x, list):
        return tuple(totuple(i) for i in x)
    if isinstance(x, dict):
        return {k: totuple(v) if isinstance(v, list) else v for k, v in x.items()}
    return x
