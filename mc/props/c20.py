"""C20 - ignore_case makes grammar literals case-insensitive.

E1: grammars with string / regex literals compiled with ignore_case=True (x autokwd); for every input the
reference accepts, EVERY case variation of its alphabetic characters (all 2^m, m <= 6) is run.
Oracle: RefPEG with ignore_case (literals and user regexes case-insensitive, base types not; values matched by
ID / regex keep the case as written, a literal assignment yields the grammar's spelling).
"""

import itertools

from mc import refpeg, gramgen, diff
from mc.core import Unit
from mc.props import c01

ID = "C20"
LEVEL = "exploration"
ENGINE = "E1-bounded-exhaustive-inputs"
TECHNIQUE = "bounded-exhaustive enumeration of grammars x accepted inputs x all letter-case variations; differential against RefPEG(ignore_case)"
CLAIM = ("Every grammar of the F-expr family up to k nodes that contains a string or regex literal, plus a keyword-heavy multi-rule family, is "
         "compiled with ignore_case=True (autokwd off and on); every input up to L tokens and every one of the 2^m case variations of the "
         "letters of each accepted input must give the reference's verdict and model (so acceptance and structure do not depend on case, and "
         "ID / regex values keep their case).")
NOTE = "Trusted: RefPEG's ignore_case switch (re.IGNORECASE for user regexes, casefolded comparison for literals). Non-ASCII letters are outside the alphabet."


def has_literal(body):
    return any(x[0] in ("lit", "re") for x in refpeg.walk(body)) or any(x[0] == "ref" and x[1] in ("R", "V", "T", "B", "S") for x in refpeg.walk(body))


def variants(text, maxm=6):
    idx = [i for i, c in enumerate(text) if c.isalpha()]
    if len(idx) > maxm:
        idx = idx[:maxm]
    for mask in range(2 ** len(idx)):
        cs = list(text)
        for b, i in enumerate(idx):
            if mask >> b & 1:
                cs[i] = cs[i].upper()
        yield "".join(cs)


def texts_for(grammar, L_, cap):
    interp = refpeg.Interp(grammar, ignore_case=True)
    out = []
    for t in gramgen.inputs(gramgen.alphabet(grammar), L_, cap):
        for j in (" ", ""):
            if j == "" and len(t) < 2:
                continue
            text = j.join(t)
            out.append(text)
            if diff.ref_outcome(interp, text)[0] == "accept":
                for v in variants(text):
                    if v != text:
                        out.append(v)
    return out


EXTRA = [
    [("M", {}, ("seq", (("lit", "begin"), ("asg", "xs", "+=", ("ref", "E"), None, False), ("lit", "end")))),
     ("E", {}, ("alt", (("seq", (("lit", "if"), ("asg", "c", "=", ("ref", "ID"), None, False))), ("asg", "k", "=", ("lit", "Key"), None, False),
                        ("asg", "r", "=", ("re", "[xy]+"), None, False))))],
    # alphabetic separators (string and regex), on an assignment and on a repetition
    [("M", {}, ("seq", (("asg", "xs", "+=", ("ref", "INT"), ("lit", "and"), False), ("opt", ("lit", "end")))))],
    [("M", {}, ("seq", (("plus", ("asg", "ns", "=", ("ref", "INT"), None, False), ("lit", "or"), False), ("star", ("lit", "x"), ("re", "ab|,"), False))))],
    # suppressed references to match rules made of a single regex / keyword literal / string, and the same rule used unsuppressed
    [("M", {}, ("seq", (("sup", ("ref", "K")), ("asg", "x", "=", ("ref", "INT"), None, False), ("opt", ("asg", "k", "=", ("ref", "K"), None, False))))),
     ("K", {}, ("re", "ab"))],
    [("M", {}, ("seq", (("sup", ("ref", "K")), ("asg", "x", "=", ("ref", "INT"), None, False), ("opt", ("asg", "k", "=", ("ref", "K"), None, False))))),
     ("K", {}, ("lit", "begin"))],
    [("M", {}, ("alt", (("seq", (("sup", ("ref", "K")), ("lit", "a"))), ("seq", (("ref", "K"), ("lit", "b")))))), ("K", {}, ("seq", (("lit", "k"), ("re", "x+"))))],
]


def fold(x):
    if isinstance(x, str):
        return x.lower()
    if isinstance(x, list):
        return [fold(i) for i in x]
    if isinstance(x, dict):
        return {k: fold(v) for k, v in x.items()}
    return x


def classify(grammar, cfg, text, r, i):
    """known finding: with autokwd AND ignore_case a keyword-like literal is compiled to a regex, so its value is the
    text as written instead of the grammar's spelling. Attributed iff both options are on, both sides accept and the
    dumps are equal after lower-casing every string (nothing but the case of literal values differs)."""
    import json

    if cfg.get("autokwd") and cfg.get("ignore_case") and r[0] == "accept" and i[0] == "accept":
        if json.dumps(fold(r[1]), sort_keys=True) == json.dumps(fold(i[1]), sort_keys=True):
            return "autokwd_ignore_case_literal_value"
    return diff.attribute(grammar, cfg, text, i)


def work(arg):
    tier, L_, cap, gs = arg
    u = Unit()
    old = c01.classify
    c01.classify = classify
    try:
        for g in gs:
            texts = texts_for(g, L_, cap)
            for cfg in ({}, {"ignore_case": True}, {"ignore_case": True, "autokwd": True}, {}):  # case-sensitive runs before and after: state must not leak between metamodels
                c01.run_texts(g, cfg, texts, u, "ignore_case")
    finally:
        c01.classify = old
    return u


def run(ctx):
    c01.selfcheck()
    plan = [(1, 4, 400), (2, 3, 150), (3, 2, 60)] if ctx.tier == "quick" else [(1, 4, 800), (2, 4, 400), (3, 3, 150)]
    units = []
    nb = {}
    for size, L_, cap in plan:
        gs = [gramgen.grammar_for(b) for b in gramgen.bodies(ctx.tier, size) if gramgen.valid(b) and has_literal(b)]
        nb[size] = len(gs)
        units += [(ctx.tier, L_, cap, gs[i:i + 10]) for i in range(0, len(gs), 10)]
    units.append((ctx.tier, 4, 900, EXTRA))
    ctx.pmap(work, units)
    return {
        "rule": "case = (grammar, config in {ignore_case, ignore_case+autokwd}, input); inputs = all token strings up to L tokens (joined by ' ' "
                "and by '') plus every letter-case variation (<= 2^6) of each input the reference accepts; plan (nodes, max tokens, cap) = %s; "
                "non-trivial = reference accepts" % (plan,),
        "exhaustive": True, "grammars": nb,
    }, ["the BOOL / ID / INT base types are not affected by ignore_case (their regexes are compiled once without the flag)"]


replay = c01.replay
