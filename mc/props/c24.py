"""C24 - the self-hosted textX grammar agrees with the grammar compiler.

E1, differential between two real components: the syntax phase of the grammar compiler (the Arpeggio parser built from
the rule functions in textx/lang.py, which is what metamodel_from_str uses before any semantic analysis) versus
metamodel_for_language('textx').grammar_model_from_str (the parser compiled from textx/textx.tx).
Enumerated: a catalogue of every concrete-syntax construct (each alternative of each syntax rule: statements, rule
headers and parameters, all operators, repetition modifiers in every order, assignments, link references with match rule
and RREL including flags and fixed names, comments, digit-leading identifiers, degenerate texts), every ordered pair of
expression-level constructs, and every single-token mutation (drop / duplicate / swap) of every catalogue text.
Oracle: both sides accept or both reject (syntax level).
"""

import itertools
import re

from mc.core import Unit, watchdog
from mc.props import c23

ID = "C24"
LEVEL = "exploration"
ENGINE = "E1-bounded-exhaustive-inputs"
TECHNIQUE = "exhaustive construct catalogue x pairs x single-token mutations; syntax-level differential between the lang.py parser and the parser compiled from textx.tx"
CLAIM = ("Every catalogue construct, every ordered pair of expression constructs and every single-token mutation of them is parsed by both the "
         "compiler's syntax phase and the self-hosted grammar; the two verdicts must be equal.")
NOTE = ("Both sides are real textX components; no reference of mine is involved. Semantic errors of the compiler (after a successful parse) count as "
        "'accepted by the syntax phase'.")

EXPRS = {
    "re-double-backslash-slash": "/a\\\\/b/", "re-backslash-other": "/a\\d\\/b/", "re-lead-blank": "/ x/", "re-adjacent": "/x//y/", "re-blank-then-slashes": "/ //x/", "re-blank-only": "/ /", "re-star-inside": "/x /* y/",
    "str1": "'a'", "str2": '"a"', "str-esc": "'a\\'b'", "re": "/x+/", "re-slash": "/a\\/b/", "ref": "R", "base": "INT", "group": "( R )",
    "group-choice": "( 'a' | R )", "not": "!'a' 'b'", "and": "&R R", "sup-str": "'a'-", "sup-ref": "R-", "sup-group": "( 'a' R )-",
    "star": "R*", "plus": "'a'+", "opt": "R?", "ugrp": "( 'a' R )#", "star-sep": "R*[',']", "plus-resep": "R+[/,|;/]", "star-eol": "R*[eolterm]",
    "star-sep-eol": "R*[',' eolterm]", "star-eol-sep": "R*[eolterm ',']", "ugrp-sep": "( 'a' R )#[',']", "opt-mod": "R?[',']", "star-sup": "R*-",
    "star-two-seps": "R*[',' ';']", "star-EOLTERM": "R*[EOLTERM]", "star-Eolterm-sep": "R+[',' Eolterm]",
    "asg": "a=INT", "asg-plus": "a+=R", "asg-star": "a*='x'", "asg-bool": "a?=/x/", "asg-ref": "a=[R]", "asg-ref-colon": "a=[R:FQN]",
    "asg-ref-pipe": "a=[R|FQN]", "asg-ref-colon-rrel": "a=[R:FQN|^a]", "asg-ref-pipe-rrel": "a=[R|FQN|^a]", "asg-ref-qual": "a=[p.R]", "asg-ref-qual-deep": "a=[p.q.s.R]", "asg-rule-qual": "a=p.R", "asg-rule-qual-deep": "a+=p.q.R[',']",
    "rule-qual": "p.q.R", "asg-list-mods-comma": "a+=INT[',', eolterm]", "star-mods-comma": "R*[',', eolterm]", "plus-mods-comma-only": "R+[',' , ';']", "rule-qual-trailing-dot": "p.R.", "rule-qual-builtin": "ID.x", "asg-ref-qual-dotdot": "a=[p..R]",
    "asg-list-ref-sep": "a+=[R][',']", "asg-list-ref-eol": "a*=[R:ID|^a][eolterm]", "asg-mod-sep-eol": "a+=INT[',' eolterm]", "asg-mod-eol-sep": "a+=INT[eolterm ',']",
    "asg-sup": "a=INT-", "ref-INTEGER": "INTEGER", "ref-IDx": "IDx 'a'", "asg-STRINGS": "a=STRINGS", "asg-BOOLEAN-list": "a+=BOOLEAN[',']", "ref-eolterms": "R*[eolterms]", "asg-digit-attr": "1a=INT", "asg-digit-rule": "a=1B", "ref-digit-class": "a=[1B]", "ref-digit-rule": "a=[R:1F]",
}
RRELS = {
    "nav": "a", "noconsume": "~a", "fixed": "'n'~a", "fixed-dq": '"n m"~a', "path": "a.b", "star": "a*", "group-star": "(a)*", "alt": "a,b",
    "group-alt": "(a,b).c", "up": "^a", "dot": ".a", "dots": "..a", "dots3": "...a", "only-dots": "..", "only-up": "^", "parent": "parent(T)", "mixed": "a.~b*.c",
    "PARENT": "PARENT(T)", "flag-M": "+M:a", "flag-m": "+m:a", "flag-p": "+p:a", "flag-mp": "+mp:a", "flag-pm": "+pm:a", "flag-m-up": "+m:^a", "parent-path": "parent(T).a*", "up-star": "^a*.b",
}
HEADERS = {
    "plain": "R:", "noskipws": "R[noskipws]:", "two-params": "R[skipws, ws=' ']:", "split": "R[split='/']:", "param-dq": 'R[ws="\\n"]:',
    "digit-rule-name": "1R:", "importer": "importer:", "references-name": "references:", "as-name": "as:", "underscore": "_R9:", "unicode": "Rä:", "empty-params": "R[]:", "param-no-comma": "R[skipws noskipws]:",
}
STMTS = {
    "IMPORT": "IMPORT a", "REFERENCE": "REFERENCE lang", "reference-AS": "reference lang AS l", "import": "import a", "import-dotted": "import a.b.c", "reference": "reference lang", "reference-dash": "reference my-lang", "reference-as": "reference lang as l",
    "reference-as-digit": "reference lang as 1x", "reference-asx": "reference lang asx", "reference-glued": "referencesomelang", "reference-then-as-rule": "reference x assignment: 'b';", "two": "import a reference b as c", "import-digit": "import 1a",
}
COMMENTS = {"line": "M: 'a' // c\n;", "block": "M: /* c */ 'a';", "leading": "// c\nM: 'a';", "trailing": "M: 'a'; /* c */", "in-rrel": "M: a=[R:ID|^a /* c */ ];"}
DEGENERATE = {"empty": "", "blank": " \n", "comment-only-line": "// x\n", "comment-only-block": "/* x */", "stmt-only": "import a", "no-semicolon": "M: 'a'", "two-rules": "M: 'a'; N: M;"}
TAIL = " R: 'r' a=INT; FQN: ID ('.' ID)*;"

_S = {}


def sides():
    if "c" not in _S:
        from arpeggio import ParserPython
        from textx import lang, metamodel_for_language

        # the very first metamodel of every worker process is built with non-default options: the grammar compiler caches
        # its own parser, which must not depend on the options of the metamodel that happened to be compiled first
        from textx import metamodel_from_str

        metamodel_from_str("First: 'x';", ignore_case=True, autokwd=True, skipws=False)
        _S["c"] = ParserPython(lang.textx_model, comment_def=lang.comment, reduce_tree=False)
        _S["t"] = metamodel_for_language("textx")
    return _S["c"], _S["t"]


def verdicts(text):
    from arpeggio import NoMatch
    from textx.exceptions import TextXSyntaxError

    c, t = sides()
    try:
        with watchdog(10):
            c.parse(text)
        a = True
    except NoMatch:
        a = False
    try:
        with watchdog(10):
            t.grammar_model_from_str(text)
        b = True
    except TextXSyntaxError:
        b = False
    # the same question asked through the public entry point: a syntax-phase rejection is a TextXSyntaxError whose message
    # is Arpeggio's "Expected ..." (errors raised later by the visitor have other messages and mean "parsed")
    from textx import metamodel_from_str
    from textx.exceptions import TextXError

    try:
        with watchdog(10):
            metamodel_from_str(text)
        a2 = True
    except TextXSyntaxError as e:
        a2 = not str(e.message).startswith("Expected ")
    except (TextXError, AssertionError, KeyError):
        a2 = True
    if a2 != a:
        return ("direct parser %s / metamodel_from_str %s" % (a, a2)), b
    return a, b


def catalogue():
    for k, e in EXPRS.items():
        yield "expr:" + k, "M: %s;" % e + TAIL
    for k, r in RRELS.items():
        yield "rrel:" + k, "M: a=[R:FQN|%s];" % r + TAIL
        yield "rrel-list:" + k, "M: a+=[R:FQN|%s][','];" % r + TAIL
    for k, h in HEADERS.items():
        yield "header:" + k, "%s 'a';" % h
    for k, s in STMTS.items():
        yield "stmt:" + k, "%s M: 'a';" % s
    for k, c in COMMENTS.items():
        yield "comment:" + k, c
    for k, d in DEGENERATE.items():
        yield "degenerate:" + k, d
    for (k1, e1), (k2, e2) in itertools.product(EXPRS.items(), repeat=2):
        yield "pair-seq:%s+%s" % (k1, k2), "M: %s %s;" % (e1, e2) + TAIL
    for (k1, e1), (k2, e2) in itertools.product(list(EXPRS.items())[::3], repeat=2):
        yield "pair-alt:%s|%s" % (k1, k2), "M: %s | %s;" % (e1, e2) + TAIL


def work(arg):
    items, mutate = arg
    u = Unit()
    for label, text in items:
        texts = [(label, text)]
        if mutate:
            core_text = text[:-len(TAIL)] if text.endswith(TAIL) and TAIL else text
            toks = c23.tokens(core_text)
            J = " ".join
            tail = TAIL if text.endswith(TAIL) else ""
            for i in range(len(toks)):
                texts.append((label + " drop@%d" % i, J(toks[:i] + toks[i + 1:]) + tail))
                texts.append((label + " dup@%d" % i, J(toks[:i + 1] + toks[i:]) + tail))
                if i + 1 < len(toks):
                    texts.append((label + " swap@%d" % i, J(toks[:i] + [toks[i + 1], toks[i]] + toks[i + 2:]) + tail))
        seen = set()
        for lab, t in texts:
            if t in seen:
                continue
            seen.add(t)
            try:
                a, b = verdicts(t)
            except Exception as e:
                u.case([t], nontrivial=True)
                u.fail([t], {"text": t}, sig="exception " + label.split(" ")[0], what="%s: %r -> %s: %s" % (lab, t[:200], type(e).__name__, str(e)[:100]))
                continue
            u.case([t], nontrivial=a or b, sample={"construct": lab, "text": t, "compiler_accepts": a, "textx_tx_accepts": b} if a and " " in lab else None)
            u.count("both accept" if a and b else "both reject" if not a and not b else "DISAGREE")
            if a != b:
                u.fail([t], {"text": t}, sig=("compiler-only " if a else "textx.tx-only ") + label.split(" ")[0], key=None,
                       what="%s: %r  compiler syntax phase accepts=%s, textx.tx accepts=%s" % (lab, t[:200], a, b))
    return u


def file_case(enc):
    """the grammar as a FILE in another encoding: the grammar model holds the text as written"""
    import os

    from mc import core
    from textx import metamodel_for_language

    sides()  # keeps "the first meta-model of the process is built with non-default options" true in whichever order the units run
    fn = os.path.join(core.rundir(), "c24-%d-%s.tx" % (os.getpid(), enc))
    with open(fn, "w", encoding=enc) as f:
        f.write("A: 'caf\u00e9 \u00fc' x=INT;")
    try:
        gm = sides()[1].grammar_model_from_file(fn, encoding=enc)
        lit = gm.rules[0].body.sequences[0].repeatable_exprs[0].expr.simple_match.match
        return lit == "caf\u00e9 \u00fc", {"file_encoding": enc, "literal_in_grammar_model": lit}
    except Exception as e:
        return False, {"file_encoding": enc, "observed": "%s: %s" % (type(e).__name__, str(e)[:100])}


def work_file(arg):
    u = Unit()
    for enc in arg:
        ok, obs = file_case(enc)
        u.case(["grammar-file", enc], nontrivial=True, sample=obs)
        u.count("grammar file encodings")
        if not ok:
            u.fail(["grammar-file", enc], {"file_encoding": enc}, sig="grammar file encoding", what=str(obs)[:300])
    return u


def run(ctx):
    ctx.pmap(work_file, [["utf-8", "latin-1", "utf-16"]])
    items = list(catalogue())
    single = [x for x in items if not x[0].startswith("pair-")]
    pairs = [x for x in items if x[0].startswith("pair-")]
    units = [(single[i:i + 6], True) for i in range(0, len(single), 6)]
    units += [(pairs[i:i + 60], ctx.tier == "thorough") for i in range(0, len(pairs), 60)]
    ctx.pmap(work, units)
    return {
        "rule": "case = one grammar text; catalogue = %d single constructs (each with all drop/dup/swap single-token mutations) + %d ordered pairs of expression "
                "constructs (mutated in the thorough tier); non-trivial = at least one side accepts" % (len(single), len(pairs)),
        "exhaustive": True,
    }, ["'accepted by the grammar compiler' means the lang.py Arpeggio grammar parses the text (semantic analysis not involved)"]


def replay(p):
    if "file_encoding" in p:
        return file_case(p["file_encoding"])
    a, b = verdicts(p["text"])
    return a == b, {"text": p["text"], "compiler_accepts": a, "textx_tx_accepts": b}
