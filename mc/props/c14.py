"""C14 - user classes are constructed once with exactly the grammar attributes; instrumentation is undone.

E2: explicit-state search over load histories of the real API.  Alphabet: successful load, syntax error, unknown
reference, user __init__ raising, object processor raising, scope provider raising, a load started from inside a scope
provider (valid / syntax error / unknown reference, caught by the provider), a two-file load whose imported file is valid /
has a syntax error.  Every history up to depth D is executed for each kind of user class (plain, __slots__, frozen-style,
own __setattr__/__getattribute__) on a fresh set of classes and a fresh metamodel.
Invariants after every transition: each object initialised exactly once with exactly the rule's attributes (+ parent),
references already resolved, before any object processor; class __dict__ holds the original attribute-access methods
(identity), no _tx_instrumented / _tx_real_* left, _tx_obj_attrs empty.
"""

import itertools
import os

from mc import core
from mc.core import Unit, watchdog

ID = "C14"
LEVEL = "model_checking"
ENGINE = "E2-explicit-state-histories"
TECHNIQUE = "exhaustive enumeration of load histories (depth-bounded, every class kind) on the real API with state invariants after every transition"
CLAIM = ("All histories up to depth D over an alphabet of 15 load outcomes (including loads nested inside a scope provider and two-file loads) "
         "are run for four kinds of user classes; after every step the user classes must be byte-for-byte uninstrumented with empty per-object "
         "storage, and every successful load must have called each __init__ exactly once with exactly the rule attributes, resolved references "
         "and before any object processor.")
NOTE = "Trusted: the class factories and recording callbacks. State fingerprint = (instrumentation counter, storage size, identity of the four dunder methods) per class."

GRAMMAR = """
Model: imports*=Import items*=Item;
Import: 'import' importURI=STRING;
Item: Node | Leaf;
Node: 'n' name=ID ('->' up=[Item])? '{' items*=Item '}';
Leaf: 'l' name=ID ('->' up=[Item])? (':' val=INT)?;
"""
OK_TEXT = "n a { l b -> a : 3 l c } l d -> b"
EXPECT = {"a": ("Node", {"name", "up", "items", "parent"}), "b": ("Leaf", {"name", "up", "val", "parent"}),
          "c": ("Leaf", {"name", "up", "val", "parent"}), "d": ("Leaf", {"name", "up", "val", "parent"})}

OPS = ["ok", "syntax", "unknown", "initfail", "procfail", "provfail", "nested-ok", "nested-syntax", "nested-unknown", "import-ok", "import-syntax",
       "import-unknown", "import-procfail", "matchfail", "import-missing"]
KINDS = ["plain", "slots", "frozen", "custom", "defaults"]
DUNDERS = ("__setattr__", "__delattr__", "__getattribute__", "__getattr__")


def make_classes(kind, log, ctl):
    def body_init(self, kw):
        log.append(("init", type(self).__name__, kw.get("name"), dict(kw)))
        if ctl.get("initfail") and kw.get("name") == "c":
            raise ValueError("init failure injected")

    if kind == "plain":
        class Node:
            def __init__(self, **kw):
                body_init(self, kw)
                self.__dict__.update(kw)

        class Leaf:
            def __init__(self, **kw):
                body_init(self, kw)
                self.__dict__.update(kw)
    elif kind == "defaults":
        # dataclass-style user classes: class-level defaults named like the grammar attributes (meta-model without auto-init)
        class Node:
            name = None
            up = None
            items = ()

            def __init__(self, **kw):
                body_init(self, kw)
                self.__dict__.update(kw)

        class Leaf:
            name = "unnamed"
            up = None
            val = 0

            def __init__(self, **kw):
                body_init(self, kw)
                self.__dict__.update(kw)
    elif kind == "slots":
        class Node:
            __slots__ = ("name", "up", "items", "parent", "__weakref__")

            def __init__(self, **kw):
                body_init(self, kw)
                for k, v in kw.items():
                    setattr(self, k, v)

        class Leaf:
            __slots__ = ("name", "up", "val", "parent", "__weakref__")

            def __init__(self, **kw):
                body_init(self, kw)
                for k, v in kw.items():
                    setattr(self, k, v)
    elif kind == "frozen":
        class Node:
            def __init__(self, **kw):
                body_init(self, kw)
                for k, v in kw.items():
                    object.__setattr__(self, k, v)
                object.__setattr__(self, "_frozen", True)

            def __setattr__(self, k, v):
                if getattr(self, "_frozen", False):
                    raise AttributeError("frozen")
                object.__setattr__(self, k, v)

        class Leaf(Node):
            pass
        Leaf.__init__ = Node.__init__  # same behaviour, own class
    else:
        class Node:
            def __init__(self, **kw):
                body_init(self, kw)
                for k, v in kw.items():
                    setattr(self, k, v)  # through the class's own __setattr__, as written by the user

            def __setattr__(self, k, v):
                if k == "name":
                    log.append(("user-setattr", v))
                object.__setattr__(self, k, v)

            def __getattribute__(self, k):
                return object.__getattribute__(self, k)

            def __delattr__(self, k):
                object.__delattr__(self, k)

        class Leaf:
            def __init__(self, **kw):
                body_init(self, kw)
                for k, v in kw.items():
                    setattr(self, k, v)

            def __setattr__(self, k, v):
                if k == "name":
                    log.append(("user-setattr", v))
                object.__setattr__(self, k, v)

            def __getattribute__(self, k):
                return object.__getattribute__(self, k)
    return Node, Leaf


def fingerprint(classes, originals):
    fp = []
    for c in classes:
        d = c.__dict__
        fp.append((c.__name__, d.get("_tx_instrumented"), len(d.get("_tx_obj_attrs", {})),
                   tuple(sorted(k for k in d if k.startswith("_tx_real"))),
                   tuple(d.get(m) is originals[c][m] for m in DUNDERS)))
    return tuple(fp)


def clean(fp):
    return all(inst is None and n == 0 and not real and all(same) for (_, inst, n, real, same) in fp)


class World:
    def __init__(self, kind, workdir):
        from textx import metamodel_from_str
        from textx.scoping.providers import PlainNameImportURI

        self.log = []
        self.ctl = {}
        self.kind = kind
        self.Node, self.Leaf = make_classes(kind, self.log, self.ctl)
        self.classes = (self.Node, self.Leaf)
        self.originals = {c: {m: c.__dict__.get(m) for m in DUNDERS} for c in self.classes}
        self.mm = metamodel_from_str(GRAMMAR, classes=[self.Node, self.Leaf], **({"auto_init_attributes": False} if kind == "defaults" else {}))
        self.dir = workdir
        w = self

        def proc(rule):
            def p(obj):
                w.log.append(("proc", rule, getattr(obj, "name", None)))
                if w.ctl.get("procfail") and rule == "Leaf" and getattr(obj, "name", None) == "c":
                    raise ValueError("processor failure injected")
            return p
        def intproc(x):
            # a match processor: runs while the parse tree is turned into objects, i.e. inside a half-built user object
            if w.ctl.get("matchfail") and x == "3":
                raise ValueError("match processor failure injected")
            return int(x)
        self.mm.register_obj_processors({"Node": proc("Node"), "Leaf": proc("Leaf"), "INT": intproc})
        inner = PlainNameImportURI()

        class Prov(PlainNameImportURI):
            def __call__(self, obj, attr, obj_ref):
                w.log.append(("prov", obj_ref.obj_name))
                obj.lookup_note = 1  # user code may annotate objects during loading; this is not a rule attribute
                if w.ctl.get("provfail"):
                    raise ValueError("provider failure injected")
                nested = w.ctl.pop("nested", None)
                if nested:
                    w.log.append(("nested-start",))
                    try:
                        w.mm.model_from_str(nested)
                        w.log.append(("nested-done",))
                    except Exception as e:  # the provider swallows the inner failure
                        w.log.append(("nested-failed", type(e).__name__))
                return inner.__call__(obj, attr, obj_ref)
        self.mm.register_scope_providers({"*.*": Prov()})

    def do(self, op):
        """-> (outcome, failures)"""
        del self.log[:]
        self.ctl.clear()
        text = OK_TEXT
        fn = None
        if op == "syntax":
            text = "n a { l b -> }"
        elif op == "unknown":
            text = "n a { l b -> zz }"
        elif op in ("initfail", "procfail", "provfail", "matchfail"):
            self.ctl[op] = True
        elif op.startswith("nested"):
            self.ctl["nested"] = {"nested-ok": "l x l y -> x", "nested-syntax": "l x l", "nested-unknown": "l x -> zz"}[op]
        elif op.startswith("import"):
            with open(os.path.join(self.dir, "lib.m"), "w") as f:
                f.write("l libx l" if op == "import-syntax" else "l libx l liby -> libx")
            text = 'import "%s" ' % ("nosuch.m" if op == "import-missing" else "lib.m") + (OK_TEXT if op != "import-unknown" else "n a { l b -> zz }")
            if op == "import-procfail":
                self.ctl["procfail"] = True
            fn = os.path.join(self.dir, "main.m")
        try:
            m = self.mm.model_from_str(text, file_name=fn) if fn else self.mm.model_from_str(text)
            outcome = "loaded"
        except Exception as e:
            m = None
            outcome = "%s" % type(e).__name__
        bad = []
        expect_ok = op in ("ok", "nested-ok", "nested-syntax", "nested-unknown", "import-ok")
        if expect_ok != (outcome == "loaded"):
            bad.append(("outcome", op, outcome))
        if outcome == "loaded":
            inits = [e for e in self.log if e[0] == "init" and e[2] in EXPECT]
            names = sorted(e[2] for e in inits)
            if names != sorted(EXPECT):
                bad.append(("init calls", names))
            # events of a load nested inside the provider belong to another model: cut them out
            outer, depth = [], 0
            for e in self.log:
                if e[0] == "nested-start":
                    depth += 1
                elif e[0] in ("nested-done", "nested-failed"):
                    depth -= 1
                elif depth == 0:
                    outer.append(e)
            fp_ = next((i for i, e in enumerate(outer) if e[0] == "proc"), None)
            if fp_ is not None and any(e[0] == "init" for e in outer[fp_:]):
                bad.append(("init after processor", [e[:3] for e in outer if e[0] in ("init", "proc")][:12]))
            first_proc = next((i for i, e in enumerate(self.log) if e[0] == "proc" and e[2] in EXPECT), None)
            for i, e in enumerate(self.log):
                if e[0] == "init" and e[2] in EXPECT:
                    cls, keys = EXPECT[e[2]]
                    if e[1] != cls or set(e[3]) != keys:
                        bad.append(("init kwargs", e[2], sorted(e[3])))
                    if first_proc is not None and i > first_proc:
                        bad.append(("init after processor", e[2]))
                    if e[2] == "b" and getattr(e[3].get("up"), "name", None) != "a":
                        bad.append(("reference unresolved at init", e[2], repr(e[3].get("up"))))
                    if e[2] == "b" and e[3].get("val") != 3:
                        bad.append(("attribute value at init", e[2], e[3].get("val")))
            if self.kind == "custom":
                # the user's own __setattr__ is what stores 'name' in __init__: it must have been called for every object, in every file of the load
                seen = {e[1] for e in self.log if e[0] == "user-setattr"}
                missing = sorted(n for n in EXPECT if n not in seen)
                if missing:
                    bad.append(("user __setattr__ bypassed while the object was initialised", missing))
        fp = fingerprint(self.classes, self.originals)
        if not clean(fp):
            bad.append(("class state after load", fp))
        return outcome, bad, fp


def run_history(kind, hist, workdir):
    w = World(kind, workdir)
    fps = []
    for i, op in enumerate(hist):
        with watchdog(20):
            outcome, bad, fp = w.do(op)
        fps.append(fp)
        if bad:
            return False, {"kind": kind, "history": list(hist), "failed_at": i, "op": op, "outcome": outcome, "failures": bad[:3]}, fps
    return True, {"kind": kind, "history": list(hist)}, fps


def work(arg):
    kind, hists = arg
    u = Unit()
    d = os.path.join(core.rundir(), "c14-%d" % os.getpid())
    os.makedirs(d, exist_ok=True)
    seen = set()
    for hist in hists:
        ok, obs, fps = run_history(kind, hist, d)
        u.transitions += len(fps)
        for fp in fps:
            seen.add(repr(fp))
        u.case([kind, list(hist)], nontrivial=len(hist) > 1, sample=obs if len(hist) > 1 else None)
        if not ok:
            u.fail([kind, list(hist)], {"kind": kind, "history": list(hist)}, sig="%s after %s" % (obs["failures"][0][0], obs["op"]),
                   what="class kind %s, history %s: step %d (%s -> %s): %s" % (kind, list(hist), obs["failed_at"], obs["op"], obs["outcome"], obs["failures"][:2]))
    u.counters["distinct class states:" + kind] = len(seen)
    return u


# ---- second family: the root rule is abstract and may yield a plain Python value (no model object at all)
PRIM_GRAMMAR = "Value: Node | INT | Word; Node: 'n' name=ID ('{' items*=Leaf '}')?; Leaf: 'l' name=ID; Word: /w\\d/;"
# 'word-tuple' / 'word-date': the match rule's processor turns the root value into an immutable value of another type (documented converter use)
PRIM_INPUTS = {"int": "5", "word": "w7", "word-tuple": "w8", "word-date": "w9", "object": "n a { l b }", "syntax": "n a {", "empty-object": "n a"}


def run_prim_history(kind, hist):
    from textx import metamodel_from_str

    log, ctl = [], {}
    Node, Leaf = make_classes(kind if kind != "defaults" else "plain", log, ctl)
    classes = (Node, Leaf)
    originals = {c: {m: c.__dict__.get(m) for m in DUNDERS} for c in classes}
    mm = metamodel_from_str(PRIM_GRAMMAR, classes=[Node, Leaf])
    import datetime

    mm.register_obj_processors({"Word": lambda x: (x,) if x == "w8" else datetime.date(2020, 1, 9) if x == "w9" else x})
    for i, op in enumerate(hist):
        try:
            m = mm.model_from_str(PRIM_INPUTS[op])
            outcome = "loaded " + type(m).__name__
        except Exception as e:
            outcome = type(e).__name__
        fp = fingerprint(classes, originals)
        want = {"int": "loaded int", "word": "loaded str", "word-tuple": "loaded tuple", "word-date": "loaded date", "object": "loaded Node", "empty-object": "loaded Node", "syntax": "TextXSyntaxError"}[op]
        bad = []
        if outcome != want:
            bad.append(("outcome", op, outcome))
        if not clean(fp):
            bad.append(("class state after load", fp))
        if bad:
            return False, {"kind": kind, "history": list(hist), "failed_at": i, "op": op, "outcome": outcome, "failures": bad[:3], "family": "primitive root"}
    return True, {"kind": kind, "history": list(hist), "family": "primitive root"}


def work_prim(arg):
    u = Unit()
    for kind, hist in arg:
        with watchdog(20):
            ok, obs = run_prim_history(kind, hist)
        u.transitions += len(hist)
        u.case(["primitive-root", kind, list(hist)], nontrivial=len(hist) > 1, sample=obs if len(hist) > 1 else None)
        if not ok:
            u.fail(["primitive-root", kind, list(hist)], {"prim": [kind, list(hist)]}, sig="primitive root %s after %s" % (obs["failures"][0][0], obs["op"]),
                   what="primitive-root family, class kind %s, history %s: step %d (%s -> %s): %s" % (kind, list(hist), obs["failed_at"], obs["op"], obs["outcome"], str(obs["failures"][:2])[:300]))
    return u


def run(ctx):
    D = 2 if ctx.tier == "quick" else 3
    ph = [(k, h) for k in ("plain", "slots", "custom") for d in range(1, D + 1) for h in itertools.product(PRIM_INPUTS, repeat=d)]
    ctx.pmap(work_prim, [ph[i:i + 20] for i in range(0, len(ph), 20)])
    hists = [h for d in range(1, D + 1) for h in itertools.product(OPS, repeat=d)]
    units = []
    for kind in KINDS:
        B = 20
        units += [(kind, hists[i:i + B]) for i in range(0, len(hists), B)]
    ctx.pmap(work, units)
    ctx.states = ctx.evaluations
    return {
        "rule": "state = history of load operations on one metamodel + fresh user classes; every history up to depth %d over %s for each class kind %s; "
                "transitions = loads; invariants evaluated after every load; non-trivial = history of length >= 2" % (D, OPS, KINDS),
        "exhaustive": True, "depth": D,
    }, ["no deduplication of states: every history is executed (the clean class state is expected after every step)"]


def replay(p):
    if "prim" in p:
        return run_prim_history(p["prim"][0], tuple(p["prim"][1]))
    d = os.path.join(core.rundir(), "c14-replay")
    os.makedirs(d, exist_ok=True)
    ok, obs, fps = run_history(p["kind"], p["history"], d)
    return ok, {k: (str(v) if k == "failures" else v) for k, v in obs.items()}
