"""C30 - the textx CLI reports outcomes and passes generator arguments faithfully.

E1 over command lines, in-process through click's CliRunner: `textx check` on every non-empty sequence (up to 3) of model
files from {valid, syntax error, semantic error} of two registered languages (language deduced per file, --language, and
--grammar variants); `textx generate` with every combination of custom arguments from {x, my-arg, a-b-c} each absent /
valued / bare flag, before and after the model file, for generators declaring no parameters, a subset (mandatory or
optional), or all.
Oracle: exit status, the located error message, and the exact kwargs received by a recording generator (dashes turned
into underscores, values as given, bare flags True); undeclared or missing-mandatory arguments -> exit 1 and no call.
"""

import itertools
import os

from mc import core
from mc.core import Unit, watchdog

ID = "C30"
LEVEL = "exploration"
ENGINE = "E1-bounded-exhaustive-inputs"
TECHNIQUE = "exhaustive enumeration of command lines (file sequences, custom-argument shapes and positions, generator declarations) run in-process with click CliRunner; table oracle"
CLAIM = ("All file sequences up to length 3 over valid / syntactically / semantically broken files of two languages for `textx check`, and all "
         "3^3 shape assignments of three custom argument names (absent, valued, bare) x 2 positions x 6 generator declarations for "
         "`textx generate`, are executed; exit codes, located messages and the received keyword arguments must match the documented behaviour.")
NOTE = "Trusted: click's CliRunner, the recording generator. Only the check and generate sub-commands are covered."

GA = "Model: 'a' name=ID refs*=Ref; Ref: 'ref' target=[Model];"
GB = "Model: 'b' n=INT;"
FILES = {
    "okA": ("f_ok.c30a", "a x ref x"), "synA": ("f_syn.c30a", "a x ref"), "semA": ("f_sem.c30a", "a x ref nosuch"),
    "okB": ("g_ok.c30b", "b 7"), "synB": ("g_syn.c30b", "b seven"),
    # a third language with imports: a file importing a file that does not exist; a file that is not valid UTF-8
    "okC": ("h_ok.c30c", 'import "h_lib.c30c" c x'), "missC": ("h_miss.c30c", 'import "nolib.c30c" c x'), "encC": ("h_enc.c30c", b"c caf\xe9"),
}
GC = "Model: imports*=Import 'c' name=/\\S+/; Import: 'import' importURI=STRING;"
NAMES = ["x", "my-arg", "a-b-c"]
RECEIVED = []


def setup(d):
    import textx
    from textx import metamodel_from_str, GeneratorDesc
    from textx.registration import GeneratorParam

    textx.clear_language_registrations()
    textx.clear_generator_registrations()
    mma, mmb = metamodel_from_str(GA), metamodel_from_str(GB)
    textx.register_language("c30a", pattern="*.c30a", metamodel=mma)
    textx.register_language("c30b", pattern="*.c30b", metamodel=mmb)
    from textx.scoping.providers import PlainNameImportURI

    mmc = metamodel_from_str(GC)
    mmc.register_scope_providers({"*.*": PlainNameImportURI()})
    textx.register_language("c30c", pattern="*.c30c", metamodel=mmc)
    with open(os.path.join(d, "h_lib.c30c"), "w") as f:
        f.write("c lib")

    def rec(metamodel, model, output_path, overwrite, debug, **custom):
        RECEIVED.append(dict(custom))
    decls = {
        "none": None,
        "empty-list": [],  # a generator that declares "no custom arguments at all"
        "all-optional": [GeneratorParam(n.replace("-", "_"), "", mandatory=False) for n in NAMES],
        "x-mandatory": [GeneratorParam("x", "", mandatory=True)],
        "myarg-mandatory-others-optional": [GeneratorParam("my_arg", "", mandatory=True), GeneratorParam("x", "", mandatory=False), GeneratorParam("a_b_c", "", mandatory=False)],
        "only-abc-optional": [GeneratorParam("a_b_c", "", mandatory=False)],
        "x-and-abc-mandatory": [GeneratorParam("x", "", mandatory=True), GeneratorParam("a_b_c", "", mandatory=True)],
    }
    for k, v in decls.items():
        textx.register_generator(GeneratorDesc("c30a", "t-" + k, generator=rec, custom_args=v))
    # generators for any language: used for c30a (which has generators of its own, for other targets) and for c30b (which has none)
    textx.register_generator(GeneratorDesc("any", "t-any-none", generator=rec, custom_args=None))
    textx.register_generator(GeneratorDesc("ANY", "t-any-x-mandatory", generator=rec, custom_args=[GeneratorParam("x", "", mandatory=True)]))
    decls["any-none"] = decls["any-none@b"] = None
    decls["any-x-mandatory"] = decls["any-x-mandatory@b"] = [GeneratorParam("x", "", mandatory=True)]
    for key, (fn, text) in FILES.items():
        with open(os.path.join(d, fn), "wb" if isinstance(text, bytes) else "w") as f:
            f.write(text)
    with open(os.path.join(d, "ga.tx"), "w") as f:
        f.write(GA)
    return decls


def teardown():
    import textx

    textx.clear_language_registrations()
    textx.clear_generator_registrations()


def cli():
    import logging
    from textx.cli import textx as textx_cli

    logging.getLogger().handlers[:] = [h for h in logging.getLogger().handlers if not isinstance(h, logging.StreamHandler)]
    return textx_cli


def run_check(d, seq, mode):
    from click.testing import CliRunner
    import logging

    args = ["check"] + [os.path.join(d, FILES[k][0]) for k in seq]
    if mode == "language":
        args += ["--language", "c30a"]
    elif mode == "grammar":
        args += ["--grammar", os.path.join(d, "ga.tx")]
    records = []

    class H(logging.Handler):
        def emit(self, r):
            records.append(r.getMessage())
    h = H()
    cli()
    root = logging.getLogger()
    old_level = root.level
    root.setLevel(logging.INFO)
    root.addHandler(h)
    try:
        res = CliRunner().invoke(cli(), args)
    finally:
        root.removeHandler(h)
        root.setLevel(old_level)
    out = (res.output or "") + "\n".join(records)
    # expected
    bad_first = None
    for k in seq:
        lang = k[-1]
        parsed_with = lang if mode == "deduce" else "A"
        if k.startswith("enc"):
            bad_first = (k, "io")  # not valid UTF-8: unreadable whatever the language
            break
        if parsed_with != lang:
            # an A-metamodel parsing a B file (or vice versa) gives a syntax error in that file
            bad_first = (k, "syntax")
            break
        if k.startswith("miss"):
            bad_first = (k, "io")  # imports a file that cannot be read: an error message, exit status 1
            break
        if k.startswith("syn"):
            bad_first = (k, "syntax")
            break
        if k.startswith("sem"):
            bad_first = (k, "semantic")
            break
    exp_code = 0 if bad_first is None else 1
    obs = {"args": [a.replace(d, "<dir>") for a in args], "exit_code": res.exit_code, "expected_exit": exp_code, "output": out.replace(d, "<dir>")[:300]}
    ok = res.exit_code == exp_code
    if ok and bad_first:
        fn = FILES[bad_first[0]][0]
        if bad_first[1] == "io":
            if "ERROR" not in out:
                ok = False
                obs["problem"] = "no error message"
        elif fn not in out or "ERROR" not in out:
            ok = False
            obs["problem"] = "error message does not name the failing file"
    if ok and not bad_first:
        ok = all(FILES[k][0] in out for k in seq)
        if not ok:
            obs["problem"] = "a checked file was not reported OK"
    if res.exception is not None and not isinstance(res.exception, SystemExit):
        ok = False
        obs["problem"] = "exception %r" % (res.exception,)
    return ok, obs


def run_generate(d, shapes, position, decl_name, decls):
    from click.testing import CliRunner

    custom = []
    given = {}
    for n, sh in zip(NAMES, shapes):
        if sh == "valued":
            custom += ["--" + n, "v_" + n]
            given[n.replace("-", "_")] = "v_" + n
        elif sh == "equals":
            custom += ["--%s=v-%s" % (n, n)]  # the usual --name=value spelling; dashes in the VALUE are kept
            given[n.replace("-", "_")] = "v-" + n
        elif sh == "bare":
            custom += ["--" + n]
            given[n.replace("-", "_")] = True
    model = os.path.join(d, FILES["okB" if decl_name.endswith("@b") else "okA"][0])
    # a bare flag directly in front of the model file would swallow it as its value: bare flags go last in 'before' position
    if position == "before":
        valued = [c for c in custom]
        bare_last = []
        i = 0
        ordered = []
        while i < len(custom):
            if "=" in custom[i]:
                ordered.append(custom[i])
                i += 1
            elif i + 1 < len(custom) and not custom[i + 1].startswith("--"):
                ordered += custom[i:i + 2]
                i += 2
            else:
                bare_last.append(custom[i])
                i += 1
        if bare_last:
            return None, {}  # cannot be expressed unambiguously
        args = ["generate", "--target", "t-" + decl_name.split("@")[0]] + ordered + [model]
    else:
        args = ["generate", model, "--target", "t-" + decl_name.split("@")[0]] + custom
    del RECEIVED[:]
    res = CliRunner().invoke(cli(), args)
    decl = decls[decl_name]
    exp_ok = True
    if decl is not None:
        names = {p.name for p in decl}
        if any(p.mandatory and p.name not in given for p in decl):
            exp_ok = False
        if given and any(g not in names for g in given):
            exp_ok = False
    obs = {"args": [a.replace(d, "<dir>") for a in args], "exit_code": res.exit_code, "received": list(RECEIVED), "expected": given if exp_ok else "exit 1"}
    if res.exception is not None and not isinstance(res.exception, SystemExit):
        obs["problem"] = "exception %r" % (res.exception,)
        return False, obs
    if exp_ok:
        return res.exit_code == 0 and RECEIVED == [given], obs
    return res.exit_code == 1 and RECEIVED == [], obs


def work(arg):
    cases = arg
    u = Unit()
    d = os.path.join(core.rundir(), "c30-%d" % os.getpid())
    os.makedirs(d, exist_ok=True)
    decls = setup(d)
    try:
        for c in cases:
            with watchdog(30):
                if c[0] == "check":
                    ok, obs = run_check(d, c[1], c[2])
                else:
                    ok, obs = run_generate(d, c[1], c[2], c[3], decls)
            if ok is None:
                continue
            u.case(list(c), nontrivial=True, sample=obs if c[0] == "generate" and "bare" in c[1] else None)
            u.count(c[0])
            if not ok:
                u.fail(list(c), {"case": list(c)}, sig="%s %s" % (c[0], obs.get("problem", "outcome")), what=str(obs)[:500])
    finally:
        teardown()
    return u


def run(ctx):
    cases = []
    keys = list(FILES)
    for n in (1, 2, 3):
        for seq in itertools.product(keys, repeat=n):
            if n == 3 and ctx.tier == "quick" and len(set(seq)) < 3:
                continue
            for mode in ("deduce", "language", "grammar"):
                cases.append(("check", seq, mode))
    for shapes in itertools.product(("absent", "valued", "bare", "equals"), repeat=3):
        for pos in ("after", "before"):
            for decl in ("none", "empty-list", "all-optional", "x-mandatory", "myarg-mandatory-others-optional", "only-abc-optional", "x-and-abc-mandatory",
                         "any-none", "any-none@b", "any-x-mandatory", "any-x-mandatory@b"):
                cases.append(("generate", shapes, pos, decl))
    ctx.pmap(work, [cases[i:i + 40] for i in range(0, len(cases), 40)])
    return {
        "rule": "check: every sequence of 1-3 files over %s x {language deduced per file, --language c30a, --grammar}; generate: every assignment of "
                "{absent, valued, bare flag, --name=value} to the custom arguments %s x {before, after the model file} x 6 generator declarations of the language plus 2 declarations registered for 'any' language "
                "(used from a language that has generators for other targets and from one that has none); every case is distinct" % (keys, NAMES),
        "exhaustive": True, "cases": len(cases),
    }, ["a bare flag placed directly before the model file is ambiguous by construction of the CLI and is not generated"]


def replay(p):
    c = p["case"]
    d = os.path.join(core.rundir(), "c30-replay")
    os.makedirs(d, exist_ok=True)
    decls = setup(d)
    try:
        if c[0] == "check":
            return run_check(d, tuple(c[1]), c[2])
        r = run_generate(d, tuple(c[1]), c[2], c[3], decls)
        return bool(r[0]), r[1]
    finally:
        teardown()
