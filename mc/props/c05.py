"""C05 - containment links and the model navigation API are consistent.

E1 with a dedicated reference: all trees of Node/Leaf objects (abstract containment attribute items*=Item, recursive
containment) up to N objects, one optional reference from any object to any object (up the tree, sideways, to itself),
with generated classes and with a user class; on every model every navigation call of a small complete menu is made from
every start object.  Oracle: tree walks over the generated forest.
"""

import itertools

from mc import trees
from mc.core import Unit, watchdog

ID = "C05"
LEVEL = "exploration"
ENGINE = "E1-bounded-exhaustive-inputs"
TECHNIQUE = "bounded-exhaustive enumeration of containment trees x back references x (selector, order, should_follow, start object) menus against tree-walk reference"
CLAIM = ("Every forest of up to N Node/Leaf objects (nesting depth <= 3), every single reference between two of its objects, with generated and "
         "with user-supplied classes, is loaded; parent of every object, get_model from every object, get_children for every combination of "
         "4 selectors x children_first x 3 should_follow predicates from every start object, get_children_of_type (name and class) and "
         "get_parent_of_type for every (object, type) are compared with walks over the generated tree; references must never add children.")
NOTE = "Trusted: the forest generator and its pre/post-order walks. Selector and should_follow predicates are total functions (they also receive primitive attribute values)."

_S = {}


class Leaf:
    def __init__(self, parent=None, name=None, up=None, val=None):
        self.parent = parent
        self.name = name
        self.up = up
        self.val = val


class PLeaf:
    """user class whose `name` is a read-only property (the constructor keeps the value elsewhere)"""

    def __init__(self, name=None, **kwargs):
        self._name = name  # everything else (parent, up, val) is left to textX, which sets the attributes on the object

    @property
    def name(self):
        return self._name


PLeaf.__name__ = "Leaf"


class DNode:
    """dataclass-style user class with class-level defaults named like the grammar attributes"""
    items = []
    head = None
    up = None

    def __init__(self, **kw):
        self.__dict__.update(kw)


DNode.__name__ = "Node"


class Node:
    """collection-like user class: an empty container is falsy (len() == 0) although it may still hold a `head`"""

    def __init__(self, parent=None, name=None, up=None, head=None, items=None):
        self.parent = parent
        self.name = name
        self.up = up
        self.head = head
        self.items = items

    def __len__(self):
        return len(self.items)


class RootModel:
    """user class of the ROOT rule written like the classes of contained rules: it keeps a `parent` attribute, which is None for the root"""

    def __init__(self, items=None, parent=None):
        self.items = items
        self.parent = parent


RootModel.__name__ = "Model"


def parent_path(p):
    return p[:-1]


def mm(user):
    if user not in _S:
        from textx import metamodel_from_str

        classes = {"sized": [Leaf, Node], "odd": [PLeaf, DNode], "rootparent": [RootModel, Leaf], True: [Leaf], False: None}[user]
        _S[user] = metamodel_from_str(trees.GRAMMAR, classes=classes)
    return _S[user]


SELECTORS = {
    "all": lambda paths, kinds, nm: lambda p: True,
    "Node": lambda paths, kinds, nm: lambda p: kinds.get(p) == "n",
    "Leaf": lambda paths, kinds, nm: lambda p: kinds.get(p) == "l",
    "name=o1": lambda paths, kinds, nm: lambda p: nm.get(p) == "o1",
}
IMPL_SELECTORS = {
    "all": lambda x: True,
    "Node": lambda x: type(x).__name__ == "Node",
    "Leaf": lambda x: type(x).__name__ == "Leaf",
    "name=o1": lambda x: getattr(x, "name", None) == "o1",
}
FOLLOW = {
    "always": (lambda kinds, nm: lambda p: True, lambda x: True),
    "not Node": (lambda kinds, nm: lambda p: kinds.get(p) != "n", lambda x: type(x).__name__ != "Node"),
    "name!=o1": (lambda kinds, nm: lambda p: nm.get(p) != "o1", lambda x: getattr(x, "name", None) != "o1"),
}


def ref_children(f, start, sel, follow, children_first):
    out = []

    def rec(p, is_root):
        if not children_first and sel(p):
            out.append(p)
        for q in trees.child_paths(f, p):
            if follow(q):
                rec(q, False)
        if children_first and sel(p):
            out.append(p)
    f_kind = dict(trees.flatten(f))
    rec(start, True)
    return out


def run_case(f, ref, user):
    from textx import get_model, get_children, get_children_of_type, get_parent_of_type

    nm = trees.names(f)
    kinds = dict(trees.flatten(f))
    text = trees.render(f, nm, ref)
    m = mm(user).model_from_str(text)
    objs = {(): m}
    for p in kinds:
        objs[p] = trees.obj_at(m, p)
    ident = {id(o): p for p, o in objs.items()}
    bad = []
    # parent / get_model
    for p, o in objs.items():
        if p == ():
            if getattr(o, "parent", None) is not None:  # a user class of the root rule may keep parent = None itself
                bad.append(("root has a parent", p))
        else:
            if getattr(o, "parent", None) is not objs[p[:-1]]:
                bad.append(("parent", p))
        if get_model(o) is not m:
            bad.append(("get_model", p))
    if ref and objs[ref[0]].up is not objs[ref[1]]:
        bad.append(("reference target", ref))
    # get_children menus
    kind_of = dict(kinds)
    kind_of[()] = "m"
    for start in objs:
        for sname in SELECTORS:
            rsel = SELECTORS[sname](None, kind_of, nm)
            if sname == "all":
                rsel = lambda p: True
            for fname, (rf, imf) in FOLLOW.items():
                for cf in (False, True):
                    exp = ref_children(f, start, rsel, rf(kind_of, nm), cf)
                    got = get_children(IMPL_SELECTORS[sname], objs[start], children_first=cf, should_follow=imf)
                    gotp = [ident.get(id(x), "<foreign %r>" % (x,)) for x in got]
                    if gotp != exp:
                        bad.append(("get_children", start, sname, fname, cf, exp, gotp))
        for typ in ("Node", "Leaf", "Model", "Item"):
            for cf in (False, True):
                exp = ref_children(f, start, lambda p, t=typ: {"n": "Node", "l": "Leaf", "m": "Model"}[kind_of[p]] == t, lambda p: True, cf)
                for tv in (typ, mm(user)[typ]):
                    got = get_children_of_type(tv, objs[start], children_first=cf)
                    gotp = [ident.get(id(x), "<foreign>") for x in got]
                    if gotp != exp:
                        bad.append(("get_children_of_type", start, typ, cf, exp, gotp))
            # parent of type
            expp = None
            q = start
            while q != ():
                q = parent_path(q)
                if {"n": "Node", "l": "Leaf", "m": "Model"}[kind_of[q]] == typ:
                    expp = q
                    break
            for tv in (typ, mm(user)[typ]):
                got = get_parent_of_type(tv, objs[start])
                gp = None if got is None else ident.get(id(got), "<foreign>")
                if gp != expp:
                    bad.append(("get_parent_of_type", start, typ, expp, gp))
    return not bad, {"text": text, "user_class": user, "failures": bad[:5]}


def work(arg):
    fs, with_refs = arg
    u = Unit()
    for f in fs:
        paths = [p for p, k in trees.flatten(f)]
        refs = [None]
        if with_refs:
            refs += [(a, b) for a in paths for b in paths]
        elif paths:
            refs += [(paths[-1], paths[0]), (paths[0], paths[-1])]
        for ref in refs:
            for user in (False, True, "sized", "odd", "rootparent"):
                cid = [f, ref, user]
                try:
                    with watchdog(20):
                        ok, obs = run_case(f, ref, user)
                except Exception as e:
                    ok, obs = False, {"text": trees.render(f, trees.names(f), ref), "failures": ["%s: %s" % (type(e).__name__, e)]}
                u.case(cid, nontrivial=len(paths) > 1, sample=obs if ref and len(paths) > 2 else None)
                u.count("api calls compared", 1)
                if not ok:
                    u.fail(cid, {"forest": f, "ref": ref, "user": user}, sig=str(obs["failures"][0][0]), what="%s :: %s" % (obs["text"], obs["failures"][:2]))
    return u


def tup(x):
    return tuple(tup(i) for i in x) if isinstance(x, (list, tuple)) else x


# ---- same-named rules in two grammar files: a type given as a class means that class ------------------------------
SN_FILES = {"main": "import base\nModel: blocks+=Block;\nBlock: 'block' name=ID '{' sections*=Section '}';\n",
            "base": "Section: 'section' name=ID '{' blocks*=Block '}';\nBlock: 'b' name=ID ('{' stmts*=Stmt '}')?;\nStmt: 'stmt' name=ID;\n"}


def sn_models():
    import itertools

    inner = ["", "b x", "b x { stmt t }", "b x { stmt t } b y { stmt u stmt v }"]
    for secs in itertools.chain([()], itertools.product(inner, repeat=1), itertools.product(inner, repeat=2)):
        body = " ".join("section s%d { %s }" % (i, x) for i, x in enumerate(secs))
        yield "block a { %s }" % body
        yield "block a { %s } block c { section q { b z } }" % body


def run_samename(text):
    import os

    from mc import core
    from textx import get_children, get_children_of_type, get_parent_of_type, metamodel_from_file

    if "sn" not in _S:
        d = os.path.join(core.rundir(), "c05sn-%d" % os.getpid())
        os.makedirs(d, exist_ok=True)
        for fn, t in SN_FILES.items():
            with open(os.path.join(d, fn + ".tx"), "w") as f:
                f.write(t)
        _S["sn"] = metamodel_from_file(os.path.join(d, "main.tx"))
    mm_ = _S["sn"]
    m = mm_.model_from_str(text)
    objs = get_children(lambda x: True, m)
    bad = []
    classes = {q: mm_[q] for q in ("main.Block", "base.Block", "base.Section", "base.Stmt", "main.Model")}
    assert classes["main.Block"] is not classes["base.Block"]
    for q, cls in classes.items():
        for start in objs:
            want = [o for o in get_children(lambda x: True, start) if type(o) is cls]
            got = get_children_of_type(cls, start)
            if [id(o) for o in got] != [id(o) for o in want]:
                bad.append(("get_children_of_type(%s)" % q, getattr(start, "name", "model"), [getattr(o, "name", None) for o in want], [getattr(o, "name", None) for o in got]))
            anc, p = None, start
            while getattr(p, "parent", None) is not None:
                p = p.parent
                if type(p) is cls:
                    anc = p
                    break
            got = get_parent_of_type(cls, start)
            if got is not anc:
                bad.append(("get_parent_of_type(%s)" % q, getattr(start, "name", "model"), getattr(anc, "name", None), getattr(got, "name", None)))
    return not bad, {"grammar_files": SN_FILES, "text": text, "objects": len(objs), "failures": bad[:3]}


def work_samename(arg):
    u = Unit()
    for text in arg:
        with watchdog(20):
            ok, obs = run_samename(text)
        u.case(["same-name", text], nontrivial=True, sample=obs if ok and obs["objects"] > 6 else None)
        u.count("same-named rules in two grammar files")
        if not ok:
            u.fail(["same-name", text], {"samename": text}, sig="same-name " + str(obs["failures"][0][0]), what=str(obs["failures"][:2])[:500] + " :: " + text)
    return u


def run(ctx):
    plan = [(1, True), (2, True), (3, True), (4, False)] if ctx.tier == "quick" else [(1, True), (2, True), (3, True), (4, True), (5, False), (6, False)]
    units = []
    nf = 0
    for n, wr in plan:
        fs = list(trees.forests(n))
        nf += len(fs)
        units += [(fs[i:i + 4], wr) for i in range(0, len(fs), 4)]
    ctx.pmap(work, units)
    sn = list(dict.fromkeys(sn_models()))
    ctx.pmap(work_samename, [sn[i:i + 6] for i in range(0, len(sn), 6)])
    return {
        "same_name_family": "%d models over main.tx/base.tx that both define a rule Block: get_children_of_type / get_parent_of_type by class for every class x every start object" % len(sn),
        "rule": "case = (forest, optional reference src->dst, classes: generated / user class Leaf / user classes Leaf and a collection-like Node that is falsy when it has no items / a Leaf with a read-only property and a Node with class-level defaults); per case: parent and get_model for every object, get_children for "
                "4 selectors x 3 should_follow x 2 orders from every start object, get_children_of_type / get_parent_of_type for every start x type "
                "(by name and by class). plan (objects, all references?) = %s; non-trivial = more than one object" % (plan,),
        "exhaustive": True, "forests": nf,
    }, ["names are unique (o0, o1, ...) so the default provider resolves the single reference"]


def replay(p):
    if "samename" in p:
        return run_samename(p["samename"])
    return run_case(tup(p["forest"]), tup(p["ref"]) if p["ref"] else None, p["user"])
