"""C29 - graph exports are well-formed for any model and metamodel.

E1: a family of metamodels (all rule kinds, multiplicities, references, match rules whose bodies contain quotes, pipes,
braces, angle brackets) and models whose object names and string values range over ALL strings up to 3 characters from
{a, ", \\, {, }, |, <, >, newline, blank}, in single attributes, primitive lists and mixed object/primitive lists; exported
with metamodel_export, model_export, the three registered generators and the PlantUML renderer.
Oracle: a hand-written recogniser of the DOT grammar accepts the output; there is a node for every class / object; every
record label parses with Graphviz's record-label grammar into exactly {name|attributes}; PlantUML output is framed by
@startuml/@enduml, has balanced braces and a class line for every common and abstract class.
"""

import io
import itertools
import os
import re

from mc import core, dotparse
from mc.core import Unit, watchdog

ID = "C29"
LEVEL = "exploration"
ENGINE = "E1-bounded-exhaustive-inputs"
TECHNIQUE = "exhaustive enumeration of special-character strings in every exported position x metamodel family; recogniser for the DOT grammar and the record-label grammar as oracle"
CLAIM = ("Every string up to 3 characters over 10 special characters is placed as an object name, a string attribute value, an element of a "
         "primitive list and an element of a mixed object/primitive list; each model is exported to DOT and the output must parse with the DOT "
         "grammar, contain a node per object and only record labels of the intended two-field shape. A family of metamodels is exported with the "
         "DOT and PlantUML renderers (API and registered generators) and checked the same way.")
NOTE = ("Trusted: mc/dotparse.py (recogniser written from the Graphviz language reference; the dot binary is not installed). Rendering fidelity "
        "(what the escaped text looks like) is not judged, only well-formedness and structure.")

CHARS = ["a", '"', "\\", "{", "}", "|", "<", ">", "\n", " "]
MODEL_GRAMMAR = r"""
Model: 'm' name=STRING items*=Item;
Item: 'i' name=STRING ('s' s=STRING)? ('l' '[' l*=STRING[','] ']')? ('x' '[' mixed*=Val[','] ']')? ('r' ref=[Item:STRING])?;
Val: Sub | STRING | INT;
Sub: 'sub' name=STRING;
"""
METAMODELS = {
    "kinds": "Model: items*=Item n=INT? f=FLOAT b?='b' s=STRING; Item: A | B | V; A: 'a' name=ID ref=[B] refs*=[A]; B: 'b' name=ID (x=A)?; V: INT | 'v';",
    "special-matches": "Model: a=M1 b=M2 c=M3; M1: /[<>|{}]+/ | '\"' | '{'; M2: 'x|y' '<z>' | \"it's\"; M3: /\\\"[^\\\"]*\\\"/;",
    "abstract-chain": "Model: x=X; X: Y | Z; Y: Z | W; Z: 'z' v=INT; W: 'w' name=ID up=[X]?;",
    "single": "Model: 'only';",
    # match rules referring to a cycle of other match rules (the export renders match rules recursively)
    "match-cycle": "Model: v=Value w=Wrap; Value: 'v' Group; Group: '<' Inner '>' | ID; Inner: Group ('|' Group)*; Wrap: Value | Inner;",
    # the meta-model of the textX language itself, as the registry hands it out (docs: "the textX language meta-model")
    "textx-language": "Placeholder: 'unused';",
    # an abstract rule mixing a local class with a class of a REFERENCED language (registered as 'c29a' by the harness)
    "referenced-language": "reference c29a as a\nModel: bs+=B; B: 'B' name=ID ('->' t=[Target])? ('~' o=[a.A])?; Target: B | a.A;",
    # grammar files importing each other: every class of every (also indirectly) imported grammar belongs to the metamodel
    # (the root grammar and the indirectly imported one both define a rule Node: two classes, two nodes)
    "import-chain": {"import_chain": "import mid\nModel: bs+=B ns*=Node;\nNode: 'n' name=ID;", "mid": "import leaf\nB: 'b' name=ID c=C other=Abs;",
                     "leaf": "C: 'c' name=ID (k=Node)?; Abs: C | D; D: 'd' x=INT;\nNode: 'ln' x=INT;"},
    "import-diamond": {"import_diamond": "import l\nimport r\nModel: ls+=L rs+=R;", "l": "import base\nL: 'l' t=T;", "r": "import base\nR: 'r' t=[T];",
                       "base": "T: 't' name=ID;"},
}
_S = {}


def esc(s):
    return '"' + s.replace("\\", "\\\\").replace('"', '\\"') + '"' if False else None


def quote_string(s):
    """textX STRING literal for content s (content must not end in a backslash and only the delimiter is escaped)"""
    q = '"'
    return q + s.replace('"', '\\"') + q


def mm_model():
    if "mm" not in _S:
        from textx import metamodel_from_str

        _S["mm"] = metamodel_from_str(MODEL_GRAMMAR)
    return _S["mm"]


def export_model(m):
    from textx.export import model_export_to_file

    f = io.StringIO()
    model_export_to_file(f, m)
    return f.getvalue()


def check_dot(text, expect_nodes, what):
    bad = []
    try:
        p = dotparse.parse_dot(text)
    except dotparse.DotError as e:
        return [("DOT syntax", str(e)[:200])]
    labelled = {k: v for k, v in p.nodes.items() if "label" in v and re.fullmatch(r"\d+", k)}
    if expect_nodes is not None and len(labelled) != expect_nodes:
        bad.append(("node count", expect_nodes, len(labelled)))
    for nid, attrs in labelled.items():
        lab = attrs["label"]
        if lab.startswith('"'):
            try:
                fields = dotparse.parse_record(dotparse.unquote(lab))
            except dotparse.DotError as e:
                bad.append(("record label", str(e)[:200]))
                continue
            if not (len(fields) == 1 and isinstance(fields[0], list) and len(fields[0]) == 2 and all(isinstance(x, str) for x in fields[0])):
                bad.append(("record label structure", repr(fields)[:200]))
    # quoted node ids used for primitive values in mixed lists are record labels too (shape=record, label defaults to the id)
    for nid, attrs in p.nodes.items():
        if nid.startswith('"') and "label" not in attrs:
            try:
                dotparse.parse_record(dotparse.unquote(nid))
            except dotparse.DotError as e:
                bad.append(("record label (node id)", str(e)[:200]))
    for a, b, attrs in p.edges:
        for k in ("label", "headlabel"):
            if k in attrs and not attrs[k].startswith('"'):
                bad.append(("edge label not quoted", attrs[k]))
    return bad


def run_model_case(where, s):
    from textx import get_children

    qs = quote_string(s)
    texts = {
        "model-name": 'm %s i "p" s "v"' % qs,
        "object-name": 'm "top" i %s s "v" i "q"' % qs,
        "string-value": 'm "top" i "p" s %s' % qs,
        "string-list": 'm "top" i "p" l [ %s , "z" ]' % qs,
        "mixed-list": 'm "top" i "p" x [ sub "k" , %s , 7 ]' % qs,
        "mixed-list-first": 'm "top" i "p" x [ %s , sub "k" ]' % qs,
        "sub-name": 'm "top" i "p" x [ sub %s , "w" ]' % qs,
        "referenced-name": 'm "top" i %s i "q" r %s' % (qs, qs),
    }
    text = texts[where]
    mm = mm_model()
    m = mm.model_from_str(text)
    n_objs = len(get_children(lambda x: True, m))
    dot = export_model(m)
    bad = check_dot(dot, n_objs, where)
    return not bad, {"where": where, "string": s, "model": text, "failures": bad[:3], "dot": dot[-400:] if bad else None}


WHERE = ["model-name", "object-name", "string-value", "string-list", "mixed-list", "mixed-list-first", "sub-name", "referenced-name"]


def run_metamodel_case(name, via):
    from textx import metamodel_from_str, metamodel_from_file
    from textx.export import metamodel_export_tofile, PlantUmlRenderer

    d = os.path.join(core.rundir(), "c29-%d" % os.getpid())
    os.makedirs(d, exist_ok=True)
    g = METAMODELS[name]
    gf = os.path.join(d, name.replace("-", "_") + ".tx")
    if isinstance(g, dict):
        for fn, txt in g.items():
            with open(os.path.join(d, fn + ".tx"), "w") as f:
                f.write(txt)
    else:
        with open(gf, "w") as f:
            f.write(g)
    if name == "referenced-language":
        from textx import clear_language_registrations, metamodel_from_str as _mfs, register_language

        clear_language_registrations()
        register_language("c29a", pattern="*.c29a", metamodel=_mfs("Model: a+=A; A: 'A' name=ID;"))
    try:
        mm = metamodel_from_file(gf)
    finally:
        if name == "referenced-language":
            pass
    if name == "textx-language":
        from textx import metamodel_for_language

        mm = metamodel_for_language("textx")
        if via.startswith("gen-"):
            return True, {"metamodel": name, "via": via, "failures": [], "skipped": "the generators take a meta-model built from a grammar file"}
    classes = [c for ns, members in (mm.metamodel if name == "textx-language" else mm).namespaces.items() if ns != "__base__" for c in members.values()]
    assert len(classes) >= (sum(len(re.findall(r"^\s*\w+\s*:|;\s*\w+\s*:", t)) for t in g.values()) if isinstance(g, dict) else 1)
    nonmatch = [c for c in classes if c._tx_type != "match"]
    bad = []
    if via in ("api-dot", "gen-dot"):
        if via == "api-dot":
            f = io.StringIO()
            metamodel_export_tofile(mm, f)
            out = f.getvalue()
        else:
            from textx import generator_for_language_target

            generator_for_language_target("textX", "dot")(None, mm, d, True, False)
            out = open(os.path.join(d, name.replace("-", "_") + ".dot")).read()
        bad = check_dot(out, len(nonmatch), name)
    else:
        if via == "api-plantuml":
            f = io.StringIO()
            metamodel_export_tofile(mm, f, PlantUmlRenderer())
            out = f.getvalue()
        else:
            from textx import generator_for_language_target

            generator_for_language_target("textX", "PlantUML")(None, mm, d, True, False)
            out = open(os.path.join(d, name.replace("-", "_") + ".pu")).read()
        if not out.lstrip().startswith("@startuml") or not out.rstrip().endswith("@enduml"):
            bad.append(("plantuml frame",))
        body = re.sub(r"legend.*?end legend", "", out, flags=re.S)
        if body.count("{") != body.count("}"):
            bad.append(("plantuml braces", body.count("{"), body.count("}")))
        for c in nonmatch:
            if not re.search(r"^class %s\b" % re.escape(c._tx_fqn), out, re.M):
                bad.append(("plantuml class line missing", c._tx_fqn))
    if name == "referenced-language":
        clear_language_registrations()
    return not bad, {"metamodel": name, "via": via, "failures": bad[:3], "output_tail": out[-300:] if bad else None}


REPO_GRAMMAR = "Model: imports*=Import items*=Item; Import: 'import' importURI=STRING; Item: 'i' name=ID ('r' ref=[Item])?;"
REPO_CASES = [(p, sc, via) for p in ("FQNImportURI", "PlainNameImportURI", "PlainNameGlobalRepo") for sc in ("str-noimport", "file-noimport", "file-import")
              for via in ("api", "api-file", "gen") if not (p == "PlainNameGlobalRepo" and sc == "file-import")]
REPO_CASES += [("FQNImportURI", sc, via) for sc in ("falsy-root", "quoted-filename", "equal-objects") for via in ("api", "api-file")]
REPO_CASES += [(p, "global-file-then-str", via) for p in ("FQNImportURI", "PlainNameImportURI") for via in ("api", "api-file")]


def run_repo_case(prov, scenario, via):
    """models of a metamodel whose scope provider keeps a model repository: without imports the repository is empty"""
    from textx import metamodel_from_str, get_children, generator_for_language_target
    from textx.scoping import providers
    from textx.export import model_export_to_file, model_export

    d = os.path.join(core.rundir(), "c29r-%d" % os.getpid())
    os.makedirs(d, exist_ok=True)
    classes = []
    if scenario == "falsy-root":
        class Model:  # a container-like user class: an empty model is falsy
            def __init__(self, imports, items):
                self.imports, self.items = imports, items

            def __len__(self):
                return len(self.items)
        classes = [Model]
    if scenario == "equal-objects":
        import dataclasses

        @dataclasses.dataclass(frozen=True)
        class Item:  # immutable user class comparing and hashing by value: two distinct model objects may be equal
            parent: object = dataclasses.field(compare=False)
            name: str = ""
            ref: object = dataclasses.field(default=None, compare=False)
        classes = [Item]
    mm = metamodel_from_str(REPO_GRAMMAR, global_repository=scenario.startswith("global-"), classes=classes)
    mm.register_scope_providers({"*.*": getattr(providers, prov)()})
    lib = 'li"b.m' if scenario == "quoted-filename" else "lib.m"
    with open(os.path.join(d, lib), "w") as f:
        f.write("i a i b r a")
    main = os.path.join(d, 'ma"in.m' if scenario == "quoted-filename" else "main.m")
    text = 'import "lib.m" i x r a i y r x' if scenario in ("file-import", "global-file-then-str") else "i x i y r x"
    if scenario == "quoted-filename":
        text = "import 'li\"b.m' i x r a i y r x"
    if scenario == "equal-objects":
        text = "i x i y i x r y i x"
    if scenario == "falsy-root":
        text = 'import "lib.m"'
    with open(main, "w") as f:
        f.write(text)
    if scenario == "global-file-then-str":
        # the meta-model's global repository holds the file models of an earlier load; a model from a string is never added to it
        mm.model_from_file(main)
        text = "i q i r r q"
        m = mm.model_from_str(text)
    else:
        m = mm.model_from_str(text) if scenario == "str-noimport" else mm.model_from_file(main)
    models = [m] + [x for x in m._tx_model_repository.all_models if x is not m] if hasattr(m, "_tx_model_repository") else [m]
    objs = [o for x in models for o in get_children(lambda _: True, x)]
    if via == "api":
        f = io.StringIO()
        model_export_to_file(f, m)
        out = f.getvalue()
    elif via == "api-file":
        model_export(m, os.path.join(d, "out.dot"))
        out = open(os.path.join(d, "out.dot")).read()
    else:
        if scenario in ("str-noimport", "global-file-then-str"):
            m._tx_filename = main  # the generator derives the output name from the model's file name
        generator_for_language_target("any", "dot")(mm, m, d, True, False)
        out = open(os.path.join(d, "main.dot")).read()
    bad = check_dot(out, len(objs), "repo")
    try:
        nodes = dotparse.parse_dot(out).nodes
        for o in get_children(lambda _: True, m):
            if str(id(o)) not in nodes:
                bad.append(("no node for object", getattr(o, "name", type(o).__name__)))
    except dotparse.DotError:
        pass
    return not bad, {"provider": prov, "scenario": scenario, "via": via, "failures": bad[:3], "dot": out[-300:] if bad else None}


def strings(L):
    for n in range(1, L + 1):
        for t in itertools.product(CHARS, repeat=n):
            s = "".join(t)
            if not s.endswith("\\"):
                yield s


def work(arg):
    cases = arg
    u = Unit()
    for c in cases:
        try:
            with watchdog(30):
                ok, obs = run_model_case(c[1], c[2]) if c[0] == "model" else run_repo_case(*c[1:]) if c[0] == "repo" else run_metamodel_case(c[1], c[2])
        except Exception as e:
            import traceback

            ok, obs = False, {"failures": [("exception", "%s: %s" % (type(e).__name__, e), traceback.format_exc()[-300:])]}
        u.case(list(c), nontrivial=True, sample={k: v for k, v in obs.items() if k != "dot"} if c[0] == "model" and len(c[2]) == 3 else None)
        u.count(c[0] + ":" + c[1])
        if not ok:
            u.fail(list(c), {"case": list(c)}, sig="%s %s" % (obs["failures"][0][0], c[1]), what=str({k: v for k, v in obs.items() if k != "dot"})[:500])
    return u


def run(ctx):
    L = 2 if ctx.tier == "quick" else 3
    cases = [("model", w, s) for w in WHERE for s in strings(L)]
    if ctx.tier == "quick":
        cases += [("model", w, s) for w in ("object-name", "mixed-list") for s in strings(3) if len(s) == 3]
    # long values (the export shortens long attribute values): each special character early and late in a 25-character string
    longs = [c + "x" * 24 for c in CHARS if c != "a"] + ["x" * 9 + c + "x" * 15 for c in CHARS if c != "a"] + ["x" * 18 + c + c + "x" * 5 for c in CHARS if c not in "a\\"]
    cases += [("model", w, s) for w in ("string-value", "string-list", "mixed-list", "object-name") for s in longs]
    cases += [("metamodel", n, via) for n in METAMODELS for via in ("api-dot", "gen-dot", "api-plantuml", "gen-plantuml")]
    cases += [("repo",) + c for c in REPO_CASES]
    ctx.pmap(work, [cases[i:i + 60] for i in range(0, len(cases), 60)])
    return {
        "rule": "model cases = (position in %s, string): all strings up to %d characters over %r not ending in a backslash; metamodel cases = %s x "
                "{API, registered generator} x {DOT, PlantUML}; repository cases = (provider keeping a model repository, model from string / file without imports / "
                "file with an import, export through the API to a stream / to a file / the any->dot generator); every case is distinct and exports a real model/metamodel" % (WHERE, L, CHARS, list(METAMODELS)),
        "exhaustive": True, "cases": len(cases),
    }, ["the expected node count is the number of objects reachable by containment (get_children) resp. the number of common and abstract classes"]


def replay(p):
    c = p["case"]
    ok, obs = run_model_case(c[1], c[2]) if c[0] == "model" else run_repo_case(*c[1:]) if c[0] == "repo" else run_metamodel_case(c[1], c[2])
    obs = {k: v for k, v in obs.items() if k not in ("dot", "output_tail")}
    obs["failures"] = [[re.sub(r"\b\d{9,}\b", "<id>", str(x)) for x in f] for f in obs["failures"]]
    return ok, obs
