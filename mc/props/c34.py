"""C34 - editor-support positions identify references and objects exactly.

E1 + E3: package/class models with plain and multi-part (qualified, with and without blanks around the dots) references
in single and list attributes, wrapper objects sharing the exact span of their only child, objects sharing a start
offset; every postponement vector k in {0..K}^n for the references; one- and two-file models; textx_tools_support=True.
Oracle: _pos_crossref_list = every reference exactly once, sorted by start, [start, end) = the reference text as written,
definition file and span = the target object's; _pos_rule_dict: keys = the spans of all objects, each value has its key's
span and no child with the same span (innermost), and every span precedes all different spans that contain it.
"""

import itertools
import os

from mc import core
from mc.core import Unit, watchdog
from mc.sched import PlainSched, Sched

ID = "C34"
LEVEL = "exploration"
ENGINE = "E3-environment-answer-schedules"
TECHNIQUE = "bounded-exhaustive enumeration of models x reference spellings x postponement vectors x file splits on the real loader with textx_tools_support; offset oracle computed by the text renderer"
CLAIM = ("For every model of the family (up to 3 references, plain / qualified / spaced-qualified spellings, single and list attributes, nested "
         "packages, wrapper objects with identical spans), every postponement vector up to K per reference and the one- and two-file variants, "
         "the cross-reference list and the position map produced with textx_tools_support=True are compared with offsets recorded while "
         "rendering the text and with the spans of the loaded objects.")
NOTE = "Trusted: the renderer's offset bookkeeping; object spans themselves are decided by C06."

GRAMMAR = """
Model: imports*=Import (packages+=Package | wrappers+=Wrapper | refs+=Ref)*;
Import: 'import' importURI=STRING;
Package: 'p' name=ID '{' (packages+=Package | classes+=Class | refs+=Ref)* '}';
Class: 'c' name=ID;
Ref: 'rl' ts+=[Class:FQN][','] | 'r' t=[Class:FQN];
Wrapper: inner=Inner;
Inner: mid=Mid;
Mid: 'w' name=ID;
FQN: ID ('.' ID)*;
"""

# model skeletons: (text with reference placeholders {0} {1} ..., list of (kind, qualified name)) ; kind r = single, rl2 = list of two
# references: (name as written, absolute qualified name of the expected target)
SKELETONS = [
    ("p a {{ c x c y }} r {0}", [("a.x", "a.x")]),
    ("p a {{ c x p b {{ c y r {0} }} }} w k r {1}", [("x", "a.x"), ("a.b.y", "a.b.y")]),
    ("w k p a {{ c x c y }} rl {0} , {1} r {2}", [("a.y", "a.y"), ("a.x", "a.x"), ("a.y", "a.y")]),
    ("p a {{ p a {{ c a r {0} }} c q }} rl {1} , {2} w m", [("a", "a.a.a"), ("a.q", "a.q"), ("a.a.a", "a.a.a")]),
]
SPELL = ["tight", "spaced"]


def spell(q, how):
    return q if how == "tight" else " . ".join(q.split("."))


def build(si, spelling):
    tmpl, refs = SKELETONS[si]
    parts = [spell(r[0], spelling) for r in refs]
    text = tmpl.format(*parts)
    # offsets of the reference texts
    out = []
    pos = 0
    t2 = tmpl.replace("{{", "{").replace("}}", "}")
    # re-render piecewise to find offsets
    cursor = 0
    rendered = ""
    import re

    for m in re.finditer(r"\{(\d+)\}", t2):
        rendered += t2[cursor:m.start()]
        idx = int(m.group(1))
        out.append((len(rendered), len(rendered) + len(parts[idx]), refs[idx][1]))
        rendered += parts[idx]
        cursor = m.end()
    rendered += t2[cursor:]
    assert rendered == text, (rendered, text)
    return text, out


def mm_for(two):
    from textx import metamodel_from_str

    return metamodel_from_str(GRAMMAR, textx_tools_support=True)


def all_objects(m):
    from textx import get_children

    return get_children(lambda x: True, m)


def resolve_name(m, q):
    cur = m
    for part in q.split("."):
        nxt = None
        for lst in ("packages", "classes"):
            for o in getattr(cur, lst, []) or []:
                if o.name == part:
                    nxt = o
        if nxt is None:
            return None
        cur = nxt
    return cur


def check_model(m, text, refspans, filename, lookup_models):
    bad = []
    lst = getattr(m, "_pos_crossref_list", None)
    if lst is None:
        return [("no _pos_crossref_list",)]
    got = [(r.ref_pos_start, r.ref_pos_end, r.def_file_name, r.def_pos_start, r.def_pos_end, r.name) for r in lst]
    exp = []
    for s, e, q in sorted(refspans):
        target = None
        for mod in lookup_models:
            target = resolve_name(mod, q)
            if target is not None:
                break
        if target is None:
            bad.append(("harness: target not found", q))
            continue
        from textx import get_model

        exp.append((s, e, get_model(target)._tx_filename, target._tx_position, target._tx_position_end))
    if [g[:5] for g in got] != exp:
        bad.append(("crossref list", exp, [g[:5] for g in got]))
    # position map
    d = getattr(m, "_pos_rule_dict", None)
    if d is None:
        return bad + [("no _pos_rule_dict",)]
    objs = all_objects(m)
    spans = {}
    for o in objs:
        spans.setdefault((o._tx_position, o._tx_position_end), []).append(o)
    if set(d.keys()) != set(spans):
        bad.append(("position map keys", sorted(spans), sorted(d.keys())))
    for k, v in d.items():
        if (getattr(v, "_tx_position", None), getattr(v, "_tx_position_end", None)) != k:
            bad.append(("position map value has another span", k))
        same = spans.get(k, [])
        # innermost: no other object with the same span is contained in v
        for o in same:
            if o is not v:
                p = o
                inside = False
                while hasattr(p, "parent"):
                    p = p.parent
                    if p is v:
                        inside = True
                if inside:
                    bad.append(("position map value is not the innermost object of its span", k, type(v).__name__, type(o).__name__))
                    break
    keys = list(d.keys())
    for i, a in enumerate(keys):
        for b in keys[:i]:
            if a != b and b[0] <= a[0] and a[1] <= b[1]:
                bad.append(("span listed after a span that contains it", a, b))
    return bad


def run_case(si, spelling, vec, two):
    from textx.scoping.providers import FQN, FQNImportURI

    text, refspans = build(si, spelling)
    mm = mm_for(two)
    idx = {s: i for i, (s, e, q) in enumerate(sorted(refspans))}
    calls = {}
    offset = [0]

    def decide(obj, attr, obj_ref):
        i = idx.get(obj_ref.position - offset[0])
        if i is None:
            return False
        c = calls.get(i, 0)
        calls[i] = c + 1
        return c < vec[i]
    obs = {"text": text, "spelling": spelling, "vec": list(vec), "two_files": two}
    try:
        if not two:
            mm.register_scope_providers({"*.*": PlainSched(FQN(), decide, horizon=200)})
            m = mm.model_from_str(text)
            bad = check_model(m, text, refspans, None, [m])
        else:
            d = os.path.join(core.rundir(), "c34-%d" % os.getpid())
            os.makedirs(d, exist_ok=True)
            # definitions (everything but top-level references) go to lib.m; the references stay in main.m
            lib_text = text
            with open(os.path.join(d, "lib.m"), "w") as f:
                f.write(lib_text)
            head = 'import "lib.m" '
            top_refs = [(s, e, q) for (s, e, q) in refspans]
            main_text = head + " ".join("r " + spell(q, spelling) for (s, e, q) in top_refs)
            # offsets in main
            mspans = []
            pos = len(head)
            for (s, e, q) in top_refs:
                t = spell(q, spelling)
                mspans.append((pos + 2, pos + 2 + len(t), q))
                pos += 2 + len(t) + 1
            with open(os.path.join(d, "main.m"), "w") as f:
                f.write(main_text)
            from textx import get_model

            # the postponement vector applies to the references inside the IMPORTED file (same text, same offsets as refspans)
            def decide_lib(o, a, r):
                return (get_model(o)._tx_filename or "").endswith("lib.m") and decide(o, a, r)
            mm.register_scope_providers({"*.*": Sched(FQNImportURI(), decide_lib, horizon=400)})
            m = mm.model_from_file(os.path.join(d, "main.m"))
            libm = [x for x in m._tx_model_repository.all_models if x is not m][0]
            resolvable = [(s, e, q) for (s, e, q) in mspans if resolve_name(libm, q) is not None]
            if len(resolvable) != len(mspans):
                return None, obs  # a relative name of the skeleton is not resolvable from the top level: skip
            bad = check_model(m, main_text, mspans, os.path.join(d, "main.m"), [libm])
            bad += [("imported model: " + str(b[0]),) + tuple(b[1:]) for b in check_model(libm, lib_text, refspans, os.path.join(d, "lib.m"), [libm])]
            bad = [tuple(str(x).replace(d, "<dir>") for x in b) for b in bad]
    except Exception as e:
        bad = [("exception", "%s: %s" % (type(e).__name__, e))]
    obs["failures"] = [tuple(str(x)[:300] for x in b) for b in bad[:3]]
    return not bad, obs


def run_mixed(spelling):
    """two files, the same reference text resolving to objects in different files"""
    from textx.scoping.providers import FQNImportURI

    d = os.path.join(core.rundir(), "c34m-%d" % os.getpid())
    os.makedirs(d, exist_ok=True)
    name = spell("inner.A", spelling)
    lib_text = "p inner { c A }"
    main_text = 'import "lib.m" p outer { p inner { c A } r %s } p other { r %s } rl %s , %s' % (name, name, name, name)
    with open(os.path.join(d, "lib.m"), "w") as f:
        f.write(lib_text)
    with open(os.path.join(d, "main.m"), "w") as f:
        f.write(main_text)
    mm = mm_for(True)
    mm.register_scope_providers({"*.*": FQNImportURI()})
    obs = {"text": main_text, "lib": lib_text, "spelling": spelling, "mixed": True}
    try:
        m = mm.model_from_file(os.path.join(d, "main.m"))
        libm = [x for x in m._tx_model_repository.all_models if x is not m][0]
        own = resolve_name(m, "outer.inner.A")
        other = resolve_name(libm, "inner.A")
        starts = []
        pos = 0
        while True:
            pos = main_text.find(name, pos)
            if pos < 0:
                break
            starts.append(pos)
            pos += len(name)
        targets = [own, other, other, other]
        exp = [(s, s + len(name), (m if t is own else libm)._tx_filename, t._tx_position, t._tx_position_end) for s, t in zip(starts, targets)]
        got = [(r.ref_pos_start, r.ref_pos_end, r.def_file_name, r.def_pos_start, r.def_pos_end) for r in m._pos_crossref_list]
        bad = [] if got == exp else [("crossref list", str(exp).replace(d, "<dir>"), str(got).replace(d, "<dir>"))]
    except Exception as e:
        bad = [("exception", "%s: %s" % (type(e).__name__, e))]
    obs["failures"] = bad
    return not bad, obs


FOREIGN_GRAMMAR = """
Model: cs+=C accs+=Acc;
C: 'c' name=ID;
Acc: 'acc' name=ID o=[OBJECT] ('.' a=[OBJECT])?;
"""


def run_builtin(spelling, kind):
    """references answered from the metamodel's builtins (objects of an earlier loaded library model) and by a provider
    that returns objects which are no textX objects (the documented way to reference foreign models)"""
    from textx import metamodel_from_str
    from textx.scoping.providers import FQN

    d = os.path.join(core.rundir(), "c34b-%d" % os.getpid())
    os.makedirs(d, exist_ok=True)
    obs = {"builtin": kind, "spelling": spelling}
    bad = []
    try:
        if kind == "library":
            lib_text = "p std { c int c str }"
            with open(os.path.join(d, "std.m"), "w") as f:
                f.write(lib_text)
            mm0 = mm_for(False)
            lib = mm0.model_from_file(os.path.join(d, "std.m"))
            bi = {"int": resolve_name(lib, "std.int"), "str": resolve_name(lib, "std.str")}
            mm = metamodel_from_str(GRAMMAR, textx_tools_support=True, builtins=bi)
            mm.register_scope_providers({"*.*": FQN()})
            own = spell("a.x", spelling)
            text = "p a { c x r int } r %s rl str , %s , int r str" % (own, own)
            obs["text"] = text
            m = mm.model_from_str(text)
            ax = resolve_name(m, "a.x")
            exp = []
            import re as _re

            for mt in _re.finditer(r"\bint\b|\bstr\b|" + _re.escape(own), text):
                if text[:mt.start()].rstrip().endswith("c"):
                    continue
                t = bi.get(mt.group(0), ax)
                fn = lib._tx_filename if t is not ax else None
                exp.append((mt.start(), mt.end(), fn, t._tx_position, t._tx_position_end))
            got = [(r.ref_pos_start, r.ref_pos_end, r.def_file_name, r.def_pos_start, r.def_pos_end) for r in m._pos_crossref_list]
            if got != exp:
                bad.append(("crossref list", str(exp).replace(d, "<dir>"), str(got).replace(d, "<dir>")))
            vals = [m.packages[0].refs[0].t, m.refs[0].t] + list(m.refs[1].ts) + [m.refs[2].t]
            if [id(v) for v in vals] != [id(bi["int"]), id(ax), id(bi["str"]), id(ax), id(bi["int"]), id(bi["str"])]:
                bad.append(("reference values",))
        elif kind == "handmade":
            # the builtin is an instance of a user class of the SAME meta-model, made by hand (documented builtins recipe): it was never parsed,
            # so it has no definition file and no span (the class itself carries the position of its rule in the grammar text)
            class Class:
                def __init__(self, parent=None, name=None):
                    self.parent, self.name = parent, name
            hand = Class(None, "int")
            mm = metamodel_from_str(GRAMMAR, textx_tools_support=True, builtins={"int": hand}, classes=[Class])
            mm.register_scope_providers({"*.*": FQN()})
            text = "p a { c x } r int r a.x"
            obs["text"] = text
            m = mm.model_from_str(text)
            ax = resolve_name(m, "a.x")
            i1, i2 = text.index("int"), text.index("a.x")
            exp = [(i1, i1 + 3, None, None, None), (i2, i2 + 3, None, ax._tx_position, ax._tx_position_end)]
            got = [(r.ref_pos_start, r.ref_pos_end, r.def_file_name, r.def_pos_start, r.def_pos_end) for r in m._pos_crossref_list]
            if got != exp:
                bad.append(("crossref list", str(exp), str(got)))
        elif kind.startswith("root:"):
            # a root match rule whose processor returns a value that is no textX object: nothing to list, but the load works
            from decimal import Decimal

            conv = {"decimal": Decimal, "list": lambda x: [x], "tuple": lambda x: (x,)}[kind[5:]]
            mm = metamodel_from_str("Amount: /\\d+\\.\\d+/;", textx_tools_support=True)
            mm.register_obj_processors({"Amount": conv})
            m = mm.model_from_str(" 12.50 ")
            obs["text"] = " 12.50 "
            if m != conv("12.50"):
                bad.append(("root value", repr(m)))
        else:
            foreign = {"name": "n1", "kind": "k1"}
            mm = metamodel_from_str(FOREIGN_GRAMMAR, textx_tools_support=True, builtins={"foreign": foreign})

            def attr_of(obj, attr, obj_ref):
                return obj.o.get(obj_ref.obj_name) if isinstance(obj.o, dict) else getattr(obj.o, obj_ref.obj_name, None)
            mm.register_scope_providers({"Acc.a": attr_of})
            text = "c k acc A1 foreign.name acc A2 k acc A3 foreign.kind"
            obs["text"] = text
            m = mm.model_from_str(text)
            if [(a.o if isinstance(a.o, dict) else a.o.name, a.a) for a in m.accs] != [(foreign, "n1"), ("k", None), (foreign, "k1")]:
                bad.append(("reference values", str([(a.o, a.a) for a in m.accs])))
            k = m.cs[0]
            exp = []
            import re as _re

            for mt in _re.finditer(r"foreign|name|kind|(?<=A2 )k", text):
                exp.append((mt.start(), mt.end(), None) + ((k._tx_position, k._tx_position_end) if mt.group(0) == "k" else (None, None)))
            assert len(exp) == 5
            got = [(r.ref_pos_start, r.ref_pos_end, r.def_file_name, r.def_pos_start, r.def_pos_end) for r in m._pos_crossref_list]
            if got != exp:
                bad.append(("crossref list", str(exp), str(got)))
    except Exception as e:
        bad = [("exception", "%s: %s" % (type(e).__name__, e))]
    obs["failures"] = bad
    return not bad, obs


def work(arg):
    cases = arg
    u = Unit()
    for si, spelling, vec, two in cases:
        with watchdog(20):
            ok, obs = run_mixed(spelling) if si == "mixed" else run_builtin(spelling, vec) if si == "builtin" else run_case(si, spelling, vec, two)
        if ok is None:
            continue
        cid = [si, spelling, list(vec), two]
        if si == "builtin":
            u.case([si, spelling, vec], nontrivial=True, sample=obs)
            u.transitions += 1
            if not ok:
                u.fail([si, spelling, vec], {"si": si, "spelling": spelling, "vec": vec, "two": two}, sig="builtin:" + str(obs["failures"][0][0])[:60], what=str(obs)[:700])
            continue
        u.case(cid, nontrivial=sum(vec) > 0 or two, sample=obs if sum(vec) > 1 else None)
        u.transitions += 1
        u.count("spelling:" + spelling)
        if not ok:
            u.fail(cid, {"si": si, "spelling": spelling, "vec": list(vec), "two": two}, sig=str(obs["failures"][0][0])[:60], what=str(obs)[:600])
    return u


def run(ctx):
    K = 1 if ctx.tier == "quick" else 2
    cases = []
    for si, (tmpl, refs) in enumerate(SKELETONS):
        for sp in SPELL:
            for vec in sorted(itertools.product(range(K + 1), repeat=len(refs)), key=lambda v: (sum(v), v)):
                if set(range(max(vec) + 1)) != set(vec):
                    continue  # a round resolving nothing ends the resolver's loop (C09)
                cases.append((si, sp, vec, False))
                cases.append((si, sp, vec, True))  # two files: the vector postpones the references inside the imported file
    for sp in SPELL:
        cases.append(("mixed", sp, (0,), True))
        cases.append(("builtin", sp, "library", False))
    cases.append(("builtin", "tight", "foreign", False))
    cases.append(("builtin", "tight", "handmade", False))
    for k in ("decimal", "list", "tuple"):
        cases.append(("builtin", "tight", "root:" + k, False))
    ctx.pmap(work, [cases[i:i + 6] for i in range(0, len(cases), 6)])
    return {
        "rule": "case = (model skeleton of %d, spelling of %s, postponement vector in {0..%d}^n with every round resolving something, one file | split into "
                "lib.m + main.m); non-trivial = at least one postponement or two files" % (len(SKELETONS), SPELL, K),
        "exhaustive": True, "cases": len(cases),
    }, ["reference offsets are recorded while the model text is rendered"]


def replay(p):
    if p["si"] == "builtin":
        r = run_builtin(p["spelling"], p["vec"])
        return bool(r[0]), r[1]
    r = run_mixed(p["spelling"]) if p["si"] == "mixed" else run_case(p["si"], p["spelling"], tuple(p["vec"]), p["two"])
    return bool(r[0]), r[1]
