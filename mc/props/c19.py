"""C19 - memoization never changes parse results.

E1, differential between two runs of the implementation: every grammar of C01's families that can backtrack
(choice / optional / repetition / unordered group; rules reachable under different whitespace modes) is
compiled with memoization=False and memoization=True and run on the same inputs; verdict, model dump and
error position must be equal.
"""

import json

from mc import refpeg, gramgen, diff, impl
from mc.core import Unit
from mc.props import c01

ID = "C19"
LEVEL = "exploration"
ENGINE = "E1-bounded-exhaustive-inputs"
TECHNIQUE = ("bounded-exhaustive enumeration of grammars x inputs; differential execution of the real parser with memoization on vs off "
             "(RefPEG used only to attribute disagreements to the known dependency finding)")
CLAIM = ("Every backtracking grammar of the F-expr family up to k nodes and the whole F-rules family (rule modifiers on root and child rules, "
         "one rule reached under two whitespace modes, Comment rules) is run with memoization off and on over every token string up to L "
         "tokens in several layouts; acceptance, the canonical model dump and the (line, col) of syntax errors must be identical.")
NOTE = ("Trusted: nothing beyond the dump function (both sides are the implementation). Known dependency finding: Arpeggio's packrat cache is "
        "keyed by (expression, position) only and ignores the whitespace mode, see known_findings.json.")


def backtracks(body):
    return any(x[0] in ("alt", "opt", "star", "plus", "ugrp") or (x[0] == "asg" and x[2] != "=") for x in refpeg.walk(body))


def two_modes(grammar):
    """does some rule get entered under two different static whitespace modes (skipws, ws, eolterm)?"""
    rules = {r[0]: r for r in grammar}
    seen = {}
    todo = [(grammar[0][0], (None, None, False))]
    while todo:
        name, mode = todo.pop()
        if name not in rules:
            continue
        _, params, body = rules[name]
        m = (params.get("skipws", mode[0]), params.get("ws", mode[1]), mode[2])
        if m in seen.setdefault(name, set()):
            continue
        seen[name].add(m)

        def visit(e, eol):
            k = e[0]
            if k == "ref":
                todo.append((e[1], (m[0], m[1], eol)))
            elif k in ("seq", "alt", "ugrp"):
                e2 = eol or (k == "ugrp" and e[3])
                for x in e[1]:
                    visit(x, e2)
            elif k in ("star", "plus"):
                visit(e[1], eol or e[3])
            elif k in ("opt", "and", "not", "sup"):
                visit(e[1], eol)
            elif k == "asg":
                visit(e[3], eol or e[5])
        visit(body, m[2])
    return any(len(v) > 1 for v in seen.values())


def outcome(mm, text):
    kind, payload, _ = impl.load(mm, text)
    return [kind, payload]


def run_one(grammar, cfg, texts, u, family, fresh=False):
    """fresh=True: a new pair of metamodels is built for every input, so that every parse is the first parse of
    its metamodel (state shared between metamodels or left over from construction shows up only then)."""
    gtext = refpeg.to_text(grammar)
    try:
        mm0 = impl.make_mm(gtext, dict(cfg, memoization=False))
        mm1 = impl.make_mm(gtext, dict(cfg, memoization=True))
    except Exception as e:
        u.case([family, gtext, "compile"], nontrivial=False)
        u.fail([family, gtext, "compile"], {"grammar": grammar, "cfg": cfg, "input": None}, sig="compile", what="%s refused: %s" % (gtext, e))
        return
    tm = two_modes(grammar)
    u.count("grammars" + (" (rule under two whitespace modes)" if tm else ""))
    interp = None
    for text in texts:
        if fresh:
            mm0 = impl.make_mm(gtext, dict(cfg, memoization=False))
            mm1 = impl.make_mm(gtext, dict(cfg, memoization=True))
        a = outcome(mm0, text)
        b = outcome(mm1, text)
        cid = [family, gtext, json.dumps(cfg, sort_keys=True), text]
        u.case(cid, nontrivial=(a[0] == "accept"), sample={"grammar": gtext, "input": text, "memo_off": a, "memo_on": b} if a[0] == "accept" and len(text) > 3 else None)
        if json.dumps(a, sort_keys=True) != json.dumps(b, sort_keys=True):
            key = None
            if tm:
                if interp is None:
                    interp = refpeg.Interp(grammar, **{k: v for k, v in cfg.items() if k in diff.REF_KEYS})
                r = diff.ref_outcome(interp, text)
                strict_ok = (a[0] == "reject") if r[0] == "reject" else (a[0] == "accept" and json.dumps(a[1], sort_keys=True) == json.dumps(r[1], sort_keys=True))
                if strict_ok:
                    key = "memo_key_ignores_ws_mode"
            u.fail(cid, {"grammar": grammar, "cfg": cfg, "input": text}, key=key, sig="%s off=%s on=%s" % (family, a[0], b[0]),
                   what="%s | cfg=%s | input=%r | memoization off=%s | on=%s" % (gtext.replace("\n", " "), cfg, text, json.dumps(a)[:160], json.dumps(b)[:160]))


def work_expr(arg):
    tier, L_, bodies = arg
    u = Unit()
    for body in bodies:
        g = gramgen.grammar_for(body)
        alpha = gramgen.alphabet(g)
        texts = []
        for t in gramgen.inputs(alpha, L_, 300):
            texts.append(" ".join(t))
            if len(t) > 1:
                texts.append("".join(t))
        run_one(g, {}, texts, u, "expr")
    return u


def work_rules(arg):
    tier, items = arg
    u = Unit()
    for label, g in items:
        alpha = gramgen.alphabet(g, foreign=False)
        gtext = refpeg.to_text(g)
        joiners = ["", " "] + (["\n"] if ("\\n" in gtext or "eolterm" in gtext or tier == "thorough") else [])
        cm = [r for r in g if r[0] == "Comment"]
        if cm and cm[0][2][0] == "alt":
            joiners += [" #z\n", "/*z*/"]
        elif cm:
            joiners.append(" #z\n" if "#" in cm[0][2][1] else "/*z*/")
        texts = []
        for t in gramgen.inputs(alpha, 3, 70 if tier == "quick" else 160):
            texts += list(gramgen.layouts(t, joiners))
        for cfg in ({}, {"skipws": False}):
            run_one(g, cfg, texts, u, "rules:" + label.split("|")[0])
    return u


def fresh_family():
    """grammars for the first-parse-of-a-fresh-metamodel family: a rule tried suppressed and unsuppressed at the same
    position, and the shared composite base types NUMBER / BASETYPE"""
    L, REF, SEQ, ALT = gramgen.L, gramgen.REF, gramgen.SEQ, gramgen.ALT
    A = lambda attr, op, rhs: ("asg", attr, op, rhs, None, False)
    out = []
    for x in ("R", "V", "T", "B"):
        for second in (A("p", "=", REF(x)), REF(x), A("p", "+=", REF(x))):
            out.append(gramgen.grammar_for(ALT(SEQ(("sup", REF(x)), L("a")), SEQ(second, L("b")))))
            out.append(gramgen.grammar_for(SEQ(("opt", SEQ(("sup", REF(x)), L("a"))), second)))
            out.append(gramgen.grammar_for(SEQ(("not", SEQ(("sup", REF(x)), L("a"))), second, ("opt", L("b")))))
    for bt in ("NUMBER", "BASETYPE", "FLOAT", "BOOL"):
        for body in (A("p", "=", REF(bt)), A("p", "+=", REF(bt)), ALT(SEQ(REF(bt), L("a")), A("p", "=", REF(bt))),
                     SEQ(A("p", "=", REF(bt)), ("opt", REF("ID"))), ALT(REF("ID"), REF(bt)), ("plus", REF(bt), L(","), False)):
            out.append([("M", {}, body)])
    return out


def work_fresh(gs):
    u = Unit()
    for g in gs:
        alpha = gramgen.alphabet(g)
        for extra in ("1.5", "true", "7"):
            if extra not in alpha:
                alpha.append(extra)
        texts = [" ".join(t) for t in gramgen.inputs(alpha, 3, 90) if t]
        # longest inputs first: the very first parse of every fresh metamodel then touches several positions
        texts.sort(key=lambda t: (-len(t), t))
        run_one(g, {}, texts, u, "fresh", fresh=True)
    return u


def run(ctx):
    plan = [(1, 3), (2, 3), (3, 2)] if ctx.tier == "quick" else [(1, 4), (2, 4), (3, 3), (4, 2)]
    units = []
    nb = {}
    for size, L_ in plan:
        bs = [b for b in gramgen.bodies(ctx.tier, size) if gramgen.valid(b) and backtracks(b)]
        nb[size] = len(bs)
        units += [(ctx.tier, L_, bs[i:i + 40]) for i in range(0, len(bs), 40)]
    ctx.pmap(work_expr, units)
    fr = list(gramgen.frules(ctx.tier))
    nb["rules-family"] = len(fr)
    ctx.pmap(work_rules, [(ctx.tier, fr[i:i + 10]) for i in range(0, len(fr), 10)])
    # the Comment rule as an ordered choice of a line and a block comment (a non-terminal comment rule takes part in memoization);
    # every metamodel parses many inputs with comments at different offsets
    both = ("Comment", {}, gramgen.ALT(gramgen.COMMENTS["line"][2], gramgen.COMMENTS["block"][2]))
    cc = [(label + "|comment-choice", [both if r[0] == "Comment" else r for r in g]) for label, g in gramgen.frules("quick")
          if any(r[0] == "Comment" and "#" in r[2][1] for r in g)]
    nb["comment-choice-family"] = len(cc)
    ctx.pmap(work_rules, [(ctx.tier, cc[i:i + 10]) for i in range(0, len(cc), 10)])
    ff = fresh_family()
    nb["fresh-metamodel-family"] = len(ff)
    ctx.pmap(work_fresh, [ff[i:i + 2] for i in range(0, len(ff), 2)])
    return {
        "rule": "case = (grammar, config, rendered input), each executed with memoization off and on; grammars = F-expr bodies with a "
                "backtracking construct (plan nodes/max tokens %s) + F-rules family; non-trivial = accepted without memoization" % (plan,),
        "exhaustive": True, "grammars": nb,
    }, ["attribution of the known finding: the grammar statically enters some rule under two whitespace modes AND the non-memoized run "
        "agrees with strict RefPEG (so the memoized run is the deviating one)"]


def replay(p):
    g = c01.totuple(p["grammar"])
    gtext = refpeg.to_text(g)
    mm0 = impl.make_mm(gtext, dict(p["cfg"], memoization=False))
    mm1 = impl.make_mm(gtext, dict(p["cfg"], memoization=True))
    a, b = outcome(mm0, p["input"]), outcome(mm1, p["input"])
    return json.dumps(a, sort_keys=True) == json.dumps(b, sort_keys=True), {"grammar": gtext, "input": p["input"], "memo_off": a, "memo_on": b}
