"""C27 - model parameters are validated and reach every loaded model.

E1: every subset of {p1, p2, project_root (declared), zz, q1 (undeclared; q1 is declared on ANOTHER metamodel)} with
values from {1, 'v'}, through model_from_str, model_from_str(file_name=) and model_from_file, over import closures of 1-3
files with ImportURI, RREL '+m:', GlobalRepo providers, global repository on/off, and a two-language closure (imported
files parsed by another registered metamodel that declares fewer parameters).
Oracle: any undeclared name -> TextXError and nothing loaded; otherwise every model created by the load (main + every
model in its repository) has dict(_tx_model_params) == the given kwargs.
"""

import itertools
import os

from mc import core, mfiles
from mc.core import Unit, watchdog

ID = "C27"
LEVEL = "exploration"
ENGINE = "E1-bounded-exhaustive-inputs"
TECHNIQUE = "exhaustive enumeration of parameter subsets x load entry points x import closures x providers; dict-equality oracle on every model of the load"
CLAIM = ("All 32 subsets of five parameter names (three declared, two not; one of those declared on a different metamodel created earlier in the "
         "same process) x two value assignments x three entry points x import closures (chains, cycles, diamond over up to 3 files) x five "
         "provider/repository modes plus a two-language closure are executed; rejection happens exactly when an undeclared name is present, "
         "and every model of an accepted load exposes exactly the given parameters.")
NOTE = "Trusted: enumeration of 'all models created by this load' = main model plus every model in its repository that is not cached from an earlier load."

DECL = ["p1", "p2", "project_root"]
UNDECL = ["zz", "q1"]
GRAPHS = [((),), ((1,), ()), ((1,), (0,)), ((1, 2), (2,), ()), ((1,), (2,), (0,)), ((0, 1), (1, 2), (2, 0))]
MODES = ["importuri", "importuri-grepo", "importuri-searchpath", "fqn-importuri", "importuri-glob", "rrel", "globalrepo", "globalrepo-grepo"]


def make(mode, d):
    from textx import metamodel_from_str
    from textx.scoping import providers as P

    other = metamodel_from_str(mfiles.GRAMMAR)
    other.model_param_defs.add("q1", "declared on another metamodel only")
    kw = {"global_repository": True} if mode.endswith("grepo") else {}
    mm = metamodel_from_str(mfiles.GRAMMAR_RREL if mode == "rrel" else mfiles.GRAMMAR, **kw)
    mm.model_param_defs.add("p1", "first")
    mm.model_param_defs.add("p2", "second")
    if mode == "importuri-searchpath":
        mm.register_scope_providers({"*.*": P.PlainNameImportURI(search_path=[d])})
    elif mode == "importuri-glob":
        mm.register_scope_providers({"*.*": P.PlainNameImportURI(glob_args={"recursive": True})})
    elif mode == "fqn-importuri":
        mm.register_scope_providers({"*.*": P.FQNImportURI()})
    elif mode.startswith("importuri"):
        mm.register_scope_providers({"*.*": P.PlainNameImportURI()})
    elif mode.startswith("globalrepo"):
        mm.register_scope_providers({"*.*": P.PlainNameGlobalRepo(os.path.join(d, "*.m"))})
    return mm, other


def all_models(m):
    out = [m]
    if hasattr(m, "_tx_model_repository"):
        for x in m._tx_model_repository.all_models:
            if x not in out:
                out.append(x)
    return out


def run_case(gi, mode, entry, names, valmode):
    from textx.exceptions import TextXError

    d = os.path.join(core.rundir(), "c27-%d" % os.getpid())
    os.makedirs(d, exist_ok=True)
    for f in os.listdir(d):
        os.remove(os.path.join(d, f))
    g = GRAPHS[gi]
    mfiles.write_files(d, g)
    mm, other = make(mode, d)
    kwargs = {n: (1 if (valmode + i) % 2 == 0 else "v") for i, n in enumerate(names)}
    if "project_root" in kwargs:
        kwargs["project_root"] = d
    expect_reject = any(n in UNDECL for n in names)
    main = os.path.join(d, "f0.m")
    obs = {"graph": g, "mode": mode, "entry": entry, "kwargs": {k: (v if k != "project_root" else "<dir>") for k, v in kwargs.items()}}
    try:
        if entry == "from_file":
            m = mm.model_from_file(main, **kwargs)
        elif entry == "from_str_filename":
            m = mm.model_from_str(open(main).read(), file_name=main, **kwargs)
        else:
            if len(g) > 1 and mode != "globalrepo" and mode != "globalrepo-grepo":
                return None, obs  # a string model without file name cannot import
            text = mfiles.file_text(((),), 0) if not mode.startswith("globalrepo") else mfiles.file_text(((),), 0).replace("d0", "s0").replace("r0_0 -> s0", "r0_0 -> s0")
            m = mm.model_from_str(text, **kwargs)
    except TextXError as e:
        obs["outcome"] = "TextXError: %s" % e.message[:80]
        return expect_reject and "unknown parameter" in e.message, obs
    except Exception as e:
        obs["outcome"] = "%s: %s" % (type(e).__name__, str(e).replace(d, "<dir>")[:120])
        return False, obs
    if expect_reject:
        obs["outcome"] = "accepted although an undeclared parameter was given"
        return False, obs
    bad = []
    ms = all_models(m)
    for x in ms:
        got = dict(getattr(x, "_tx_model_params", {"<missing>": True}))
        if got != kwargs:
            bad.append((os.path.basename(str(x._tx_filename)), {k: (v if k != "project_root" else "<dir>") for k, v in got.items()}))
    obs["outcome"] = "loaded %d models" % len(ms)
    obs["failures"] = bad[:3]
    return not bad, obs


def run_two_languages(names, valmode):
    """f0.app imports f1.lib; *.lib files are parsed by another registered metamodel that declares only p2"""
    import textx
    from textx import metamodel_from_str
    from textx.exceptions import TextXError
    from textx.scoping import providers as P

    d = os.path.join(core.rundir(), "c27l-%d" % os.getpid())
    os.makedirs(d, exist_ok=True)
    g_app = mfiles.GRAMMAR
    app = metamodel_from_str(g_app)
    app.model_param_defs.add("p1", "")
    app.model_param_defs.add("p2", "")
    app.register_scope_providers({"*.*": P.PlainNameImportURI()})
    lib = metamodel_from_str(g_app)
    lib.model_param_defs.add("p2", "")
    lib.register_scope_providers({"*.*": P.PlainNameImportURI()})
    textx.clear_language_registrations()
    textx.register_language("c27app", pattern="*.app", metamodel=app)
    textx.register_language("c27lib", pattern="*.lib", metamodel=lib)
    try:
        with open(os.path.join(d, "f0.app"), "w") as f:
            f.write('import "f1.lib"\nimport "f2.app"\ndef d0\nref r -> d1\nref r2 -> d2\n')
        with open(os.path.join(d, "f1.lib"), "w") as f:
            f.write('import "f3.lib"\ndef d1\nref r -> d3\n')
        with open(os.path.join(d, "f2.app"), "w") as f:
            f.write("def d2\n")
        with open(os.path.join(d, "f3.lib"), "w") as f:
            f.write("def d3\n")
        kwargs = {n: (1 if (valmode + i) % 2 == 0 else "v") for i, n in enumerate(names)}
        expect_reject = any(n in UNDECL for n in names)
        obs = {"two_languages": True, "kwargs": kwargs}
        try:
            m = app.model_from_file(os.path.join(d, "f0.app"), **kwargs)
        except TextXError as e:
            obs["outcome"] = "TextXError: " + e.message[:80]
            return expect_reject and "unknown parameter" in e.message, obs
        except Exception as e:
            obs["outcome"] = "%s: %s" % (type(e).__name__, e)
            return False, obs
        if expect_reject:
            obs["outcome"] = "accepted"
            return False, obs
        ms = all_models(m)
        bad = [(os.path.basename(x._tx_filename), dict(x._tx_model_params)) for x in ms if dict(x._tx_model_params) != kwargs]
        obs["outcome"] = "loaded %d models" % len(ms)
        obs["failures"] = bad
        return len(ms) == 4 and not bad, obs
    finally:
        textx.clear_language_registrations()


ODD_NAMES = ["source", "name", "model", "filename", "kwargs", "params", "k", "x_1", "Source"]


def run_odd_name(name, declared, entry):
    """parameter names that coincide with identifiers used inside textX's own parameter handling"""
    from textx import metamodel_from_str
    from textx.exceptions import TextXError

    mm = metamodel_from_str("Model: 'm' name=ID;")
    if declared:
        mm.model_param_defs.add(name, "a parameter")
    obs = {"parameter": name, "declared": declared, "entry": entry}
    d = os.path.join(core.rundir(), "c27o-%d" % os.getpid())
    os.makedirs(d, exist_ok=True)
    fn = os.path.join(d, "m.mod")
    with open(fn, "w") as f:
        f.write("m x")
    try:
        m = mm.model_from_file(fn, **{name: 5}) if entry == "from_file" else mm.model_from_str("m x", **{name: 5})
        obs["outcome"] = "loaded"
        obs["params"] = dict(m._tx_model_params)
        return declared and obs["params"] == {name: 5}, obs
    except TextXError as e:
        obs["outcome"] = "TextXError: " + str(e)[:80]
        return not declared, obs
    except Exception as e:
        obs["outcome"] = "%s: %s" % (type(e).__name__, str(e)[:100])
        return False, obs


def work(arg):
    cases = arg
    u = Unit()
    for c in cases:
        with watchdog(30):
            if c[0] == "lang":
                ok, obs = run_two_languages(c[1], c[2])
            elif c[0] == "odd":
                ok, obs = run_odd_name(*c[1:])
                u.case(list(c), nontrivial=True, sample=obs)
                u.count("odd-name outcome:" + obs["outcome"].split(":")[0])
                if not ok:
                    u.fail(list(c), {"case": list(c)}, sig="odd name " + obs["outcome"].split(":")[0], what=str(obs))
                continue
            else:
                ok, obs = run_case(*c)
        if ok is None:
            continue
        u.case(list(c), nontrivial=len(c[3] if c[0] != "lang" else c[1]) > 0, sample=obs if obs.get("outcome", "").startswith("loaded") and (c[0] == "lang" or c[0] > 2) else None)
        u.count("outcome:" + obs.get("outcome", "?").split(":")[0].split(" ")[0])
        if not ok:
            u.fail(list(c), {"case": list(c)}, sig=str(obs.get("outcome", ""))[:40], what=str(obs)[:500])
    return u


def run(ctx):
    allnames = DECL + UNDECL
    subsets = [tuple(n for i, n in enumerate(allnames) if mask >> i & 1) for mask in range(2 ** len(allnames))]
    cases = []
    graphs = range(len(GRAPHS)) if ctx.tier == "thorough" else [0, 1, 2, 3]
    for gi in graphs:
        for mode in MODES:
            for entry in ("from_file", "from_str_filename", "from_str"):
                for names in subsets:
                    for vm in ((0, 1) if ctx.tier == "thorough" else (0,)):
                        cases.append((gi, mode, entry, names, vm))
    for names in subsets:
        for vm in (0, 1):
            cases.append(("lang", names, vm))
    cases += [("odd", n, decl, entry) for n in ODD_NAMES for decl in (False, True) for entry in ("from_file", "from_str")]
    B = 40
    ctx.pmap(work, [cases[i:i + B] for i in range(0, len(cases), B)])
    return {
        "rule": "case = (import graph of %s, provider mode of %s, entry point, subset of %s, value assignment); plus the two-language closure for every "
                "subset; non-trivial = at least one parameter given" % ([GRAPHS[i] for i in graphs], MODES, allnames),
        "exhaustive": True, "cases": len(cases),
    }, ["a second metamodel declaring q1 is created before the metamodel under test in every case"]


def replay(p):
    c = p["case"]
    if c[0] == "lang":
        return run_two_languages(tuple(c[1]), c[2])
    if c[0] == "odd":
        return run_odd_name(*c[1:])
    r = run_case(c[0], c[1], c[2], tuple(c[3]), c[4])
    return bool(r[0]), r[1]
