"""C06 - object source spans and locations are exact.

E1: suppression-free grammars of the F-expr family (objects come from the root rule and the auxiliary common rules),
the F-rules family and the nested Node/Leaf tree family; inputs with leading / trailing / interleaved whitespace
(blank, newline, CRLF) and comments; loaded from strings and from files.
Oracle: RefPEG's first/last matched offsets per object; slice non-empty; child inside parent; list siblings ordered and
disjoint; get_location line/col recomputed from the offset, nchar, file name.
"""

import json
import os

from mc import refpeg, gramgen, diff, impl, trees, core
from mc.core import Unit
from mc.props import c01

ID = "C06"
LEVEL = "exploration"
ENGINE = "E1-bounded-exhaustive-inputs"
TECHNIQUE = "bounded-exhaustive enumeration of grammars x inputs x layouts; span differential against RefPEG offsets plus span invariants and an independent line/column computation"
CLAIM = ("For every accepted input of the suppression-free F-expr grammars (up to k nodes), the F-rules family and the recursive Node/Leaf "
         "family, in layouts with leading, trailing and interleaved blanks, newlines, CRLF and comments, loaded from a string and from a file, "
         "every model object's _tx_position/_tx_position_end equal the reference's first/last matched offsets, slices are non-empty, children "
         "lie inside parents, list siblings are ordered and disjoint, and get_location gives the recomputed line/col, nchar and file name.")
NOTE = ("Suppressed matches ('-') are outside this fragment: they are not in the parse tree, so the reference cannot say which convention applies. "
        "Trusted: RefPEG offsets; line/col recomputation (count of newlines before the offset).")


def ref_spans(v, out, path="m"):
    if isinstance(v, refpeg.Obj):
        out.append((path, v.cls, v.start, v.end))
        for k in sorted(v.attrs):
            ref_spans(v.attrs[k], out, path + "." + k)
    elif isinstance(v, list):
        for i, x in enumerate(v):
            ref_spans(x, out, "%s[%d]" % (path, i))
    return out


def impl_spans(v, out, path="m", objs=None):
    cls = type(v)
    if hasattr(cls, "_tx_attrs") and not isinstance(v, (str, int, float, bool)):
        out.append((path, cls.__name__, getattr(v, "_tx_position", None), getattr(v, "_tx_position_end", None)))
        if objs is not None:
            objs.append((path, v))
        for k in sorted(cls._tx_attrs):
            if cls._tx_attrs[k].cont:
                impl_spans(getattr(v, k), out, path + "." + k, objs)
    elif isinstance(v, list):
        for i, x in enumerate(v):
            impl_spans(x, out, "%s[%d]" % (path, i), objs)
    return out


def linecol(text, pos):
    return text.count("\n", 0, pos) + 1, pos - (text.rfind("\n", 0, pos) + 1) + 1


def check_model(m, text, refmodel, filename):
    from textx import get_location

    bad = []
    objs = []
    got = impl_spans(m, [], objs=objs)
    want = ref_spans(refmodel, [])
    if got != want:
        bad.append(("spans", want, got))
        return bad
    spans = {p: (s, e) for p, c, s, e in got}
    for p, (s, e) in spans.items():
        if not (0 <= s < e <= len(text)):
            bad.append(("empty or out of range", p, s, e))
        par = p.rsplit(".", 1)[0] if "." in p else None
        if par:
            par = par.split("[")[0] if par not in spans else par
            pp = p[:p.rfind(".")]
            pp = pp if pp in spans else pp[:pp.rfind("[")] if "[" in pp else pp
            if pp in spans and not (spans[pp][0] <= s and e <= spans[pp][1]):
                bad.append(("child outside parent", p, (s, e), spans[pp]))
        if p.endswith("]"):
            base, idx = p[:p.rfind("[")], int(p[p.rfind("[") + 1:-1])
            prev = "%s[%d]" % (base, idx - 1)
            if idx > 0 and prev in spans and not (spans[prev][1] <= s):
                bad.append(("list siblings overlap or out of order", prev, p))
    for p, o in objs:
        loc = get_location(o)
        s, e = spans[p]
        line, col = linecol(text, s)
        exp = {"line": line, "col": col, "nchar": e - s, "filename": filename}
        if loc != exp:
            bad.append(("get_location", p, exp, loc))
    return bad


def layouts(tokens, comment):
    js = [" ", "\n", "  ", "\r\n"] + ([" #z\n"] if comment == "line" else ["/*z*/"] if comment == "block" else [])
    if not tokens:
        return
    base = " ".join(tokens)
    yield base
    for j in js:
        yield j.join(tokens)
        yield j + base
        yield base + j
        yield j + base + j
    # one deviating boundary
    for k in range(1, len(tokens)):
        for j in js[1:]:
            yield " ".join(tokens[:k]) + j + " ".join(tokens[k:])


def run_grammar(g, L_, cap, u, family, usefile, cfgs=({},)):
    gtext = refpeg.to_text(g)
    ck = None
    for r in g:
        if r[0] == "Comment":
            ck = "line" if "#" in r[2][1] else "block"
    alpha = gramgen.alphabet(g, foreign=False)
    for cfg in cfgs:
        interp, mm, err = diff.compile_both(g, cfg)
        if err is not None:
            u.fail([family, gtext], {"grammar": g, "cfg": cfg, "input": None}, sig="compile", what="%s refused %s" % (gtext, err))
            continue
        u.count("grammars")
        for t in gramgen.inputs(alpha, L_, cap):
            for text in dict.fromkeys(layouts(list(t), ck)):
                try:
                    rv = interp.load(text)
                except refpeg.Reject:
                    continue
                if not isinstance(rv, (refpeg.Obj, list)):
                    continue
                for mode in (("str", "file") if usefile else ("str",)):
                    cid = [family, gtext, json.dumps(cfg, sort_keys=True), text, mode]
                    fn = None
                    try:
                        if mode == "file":
                            fn = os.path.join(core.rundir(), "c06-%d.txt" % os.getpid())
                            with open(fn, "w", newline="") as fh:
                                fh.write(text)
                            m = mm.model_from_file(fn)
                            with open(fn, newline=None) as fh:
                                seen_text = fh.read()  # universal newlines, as textX reads it
                            if seen_text != text:
                                rv2 = interp.load(seen_text)
                            else:
                                rv2 = rv
                            bad = check_model(m, seen_text, rv2, fn)
                        else:
                            m = mm.model_from_str(text)
                            bad = check_model(m, text, rv, None)
                    except Exception as e:
                        bad = [("exception", "%s: %s" % (type(e).__name__, e))]
                    u.case(cid, nontrivial=True, sample={"grammar": gtext, "input": text, "mode": mode, "spans": ref_spans(rv, [])} if len(t) > 1 else None)
                    key = None
                    if bad and bad[0][0] == "exception" and bad[0][1].startswith("TextXSyntaxError"):
                        key = diff.attribute(g, cfg, text, ("reject", None))
                    if bad:
                        u.fail(cid, {"grammar": g, "cfg": cfg, "input": text, "mode": mode}, key=key, sig="%s %s" % (family, bad[0][0]),
                               what="%s | input=%r | %s :: %s" % (gtext.replace("\n", " "), text, mode, json.dumps(bad[:2])[:400]))


def nosup(g):
    return not any(x[0] == "sup" for r in g for x in refpeg.walk(r[2]))


def has_objects(g):
    return any(x[0] == "asg" for r in g for x in refpeg.walk(r[2]))


def work(arg):
    kind, tier, L_, cap, items = arg
    u = Unit()
    for it in items:
        if kind == "expr":
            run_grammar(gramgen.grammar_for(it), L_, cap, u, "expr", usefile=False)
        elif kind == "nested":
            run_grammar(it, L_, cap, u, "nested-lists", usefile=False)
        elif kind == "rules":
            run_grammar(it[1], 3, cap, u, "rules", usefile=False, cfgs=({}, {"ws": " \r\n"}))
        else:
            run_grammar(it, L_, cap, u, "tree", usefile=True)
    return u


TREE_GRAMMAR = [
    ("Model", {}, ("asg", "items", "*=", ("ref", "Item"), None, False)),
    ("Item", {}, ("alt", (("ref", "Node"), ("ref", "Leaf")))),
    ("Node", {}, ("seq", (("lit", "n"), ("asg", "name", "=", ("ref", "ID"), None, False),
                          ("opt", ("seq", (("lit", "h"), ("asg", "head", "=", ("ref", "Item"), None, False)))),
                          ("lit", "{"), ("asg", "items", "*=", ("ref", "Item"), None, False), ("lit", "}")))),
    ("Leaf", {}, ("seq", (("lit", "l"), ("asg", "name", "=", ("ref", "ID"), None, False),
                          ("opt", ("seq", (("lit", ":"), ("asg", "val", "=", ("ref", "INT"), None, False))))))),
]


# nested separated lists: the inner list ends its rule and uses the separator of the enclosing list (string and regex separators, + and *)
def nested_list_grammars():
    A = gramgen.A_
    L, RE, REF, SEQ, ALT = gramgen.L, gramgen.RE, gramgen.REF, gramgen.SEQ, gramgen.ALT
    cell = ("Cell", {}, A("v", "=", REF("INT")))
    for op in ("+=", "*="):
        for sep in (L(","), RE(",|;")):
            yield [("M", {}, A("rows", "+=", REF("Row"), sep)), ("Row", {}, SEQ(L("r"), A("cells", op, REF("Cell"), sep))), cell]
            yield [("M", {}, A("rows", "+=", REF("Row"), sep)), ("Row", {}, SEQ(L("r"), A("cells", op, REF("Cell"), sep), gramgen.OPT(L("e")) if hasattr(gramgen, "OPT") else L("r"))), cell]
    # the list is the ONLY element of its rule (a node with a single child)
    for sep in (L(","), RE(",|;")):
        yield [("M", {}, SEQ(A("g", "=", REF("G")), sep, L("r"))), ("G", {}, A("nums", "+=", REF("INT"), sep))]
        yield [("M", {}, SEQ(L("r"), A("gs", "+=", REF("G")))), ("G", {}, SEQ(A("nums", "+=", REF("INT"), sep), ("opt", SEQ(sep, L("r")))))]
    # the separated repetition is a GROUP (not the right-hand side of an assignment): its nodes are spliced into the enclosing rule's node
    for sep in (L(","), RE(",|;")):
        yield [("M", {}, A("calls", "+=", REF("Call"), sep)), ("Call", {}, SEQ(L("r"), ("star", SEQ(L(":"), A("args", "+=", REF("INT"))), sep, False)))]
        yield [("M", {}, A("calls", "+=", REF("Call"), sep)), ("Call", {}, SEQ(A("n", "=", REF("ID")), ("plus", SEQ(L(":"), A("a", "=", REF("INT"))), sep, False)))]
    yield [("M", {}, A("xs", "+=", REF("X"))), ("X", {}, ALT(REF("Call"), REF("Sep"))), ("Call", {}, SEQ(L("c"), A("args", "*=", REF("Cell"), RE(",|;")))),
           ("Sep", {}, SEQ(L(","), A("name", "=", REF("ID")))), cell]


def tree_inputs(tier):
    out = []
    for n in range(1, 4 if tier == "quick" else 5):
        for f in trees.forests(n):
            nm = trees.names(f)
            out.append(trees.render(f, nm).split())
    return out


def run(ctx):
    c01.selfcheck()
    plan = [(1, 3, 100), (2, 3, 60)] if ctx.tier == "quick" else [(1, 4, 300), (2, 3, 150), (3, 2, 50)]
    units = []
    counts = {}
    for size, L_, cap in plan:
        bs = [b for b in gramgen.bodies(ctx.tier, size) if gramgen.valid(b)]
        bs = [b for b in bs if nosup(gramgen.grammar_for(b)) and has_objects(gramgen.grammar_for(b))]
        counts["expr%d" % size] = len(bs)
        units += [("expr", ctx.tier, L_, cap, bs[i:i + 20]) for i in range(0, len(bs), 20)]
    fr = [x for x in gramgen.frules(ctx.tier) if has_objects(x[1])]
    if ctx.tier == "quick":
        fr = fr[::4]
    counts["rules"] = len(fr)
    units += [("rules", ctx.tier, 3, 40, fr[i:i + 8]) for i in range(0, len(fr), 8)]
    nl = list(nested_list_grammars())
    counts["nested-lists"] = len(nl)
    units += [("nested", ctx.tier, 5 if ctx.tier == "quick" else 6, 4000 if ctx.tier == "quick" else 20000, [g]) for g in nl]
    ctx.pmap(work, units)
    # the tree family: explicit token lists as inputs
    ti = tree_inputs(ctx.tier)
    counts["tree-models"] = len(ti)
    for cm in (None, gramgen.COMMENTS["line"], gramgen.COMMENTS["block"]):
        g = TREE_GRAMMAR + ([cm] if cm else [])
        ctx.pmap(work_tree, [(g, ti[i:i + 10]) for i in range(0, len(ti), 10)])
    return {
        "rule": "case = (grammar, config, laid-out input, string|file); layouts = default, each joiner of {blank, newline, two blanks, CRLF, comment} "
                "used everywhere / leading / trailing / both / at one boundary; only inputs the reference accepts with at least one object are run; "
                "every case is non-trivial (object spans compared)",
        "exhaustive": True, "families": counts,
    }, ["files are written with the exact bytes and read by textX with universal newlines; the reference is run on the text as read"]


def user_classes():
    """user classes for the tree grammar; `name` of a Leaf is a read-only property (the constructor keeps the value elsewhere)"""
    class Node:
        def __init__(self, parent=None, name=None, head=None, items=None):
            self.parent, self.name, self.head, self.items = parent, name, head, items

    class Leaf:
        def __init__(self, parent=None, name=None, val=None):
            self.parent, self._name, self.val = parent, name, val

        @property
        def name(self):
            return self._name
    return [Node, Leaf]


def work_tree(arg):
    g, token_lists = arg
    u = Unit()
    gtext = refpeg.to_text(g)
    ck = None
    for r in g:
        if r[0] == "Comment":
            ck = "line" if "#" in r[2][1] else "block"
    interp, mm_str, err = diff.compile_both(g, {})
    if err:
        u.fail(["tree", gtext], {"grammar": g, "cfg": {}, "input": None}, sig="compile", what=err)
        return u
    # the same grammar also loaded from a grammar FILE: classes then carry the grammar's file name, which must never
    # leak into the location of model objects
    from textx import metamodel_from_file

    gfn = os.path.join(core.rundir(), "c06grammar-%d.tx" % os.getpid())
    with open(gfn, "w") as fh:
        fh.write(gtext)
    mm_file = metamodel_from_file(gfn)
    from textx import metamodel_from_str

    mm_user = metamodel_from_str(gtext, classes=user_classes())
    # two-file variant: the model imports another file of the same meta-model (a load nested in the main load)
    from textx.scoping.providers import PlainNameImportURI

    g_imp = [("Model", {}, ("seq", (("asg", "imports", "*=", ("ref", "Import"), None, False), ("asg", "items", "*=", ("ref", "Item"), None, False)))),
             ("Import", {}, ("seq", (("lit", "import"), ("asg", "importURI", "=", ("ref", "STRING"), None, False))))] + [r for r in g if r[0] != "Model"]
    interp_imp, mm_imp, err = diff.compile_both(g_imp, {})
    if err:
        u.fail(["tree-import", gtext], {"grammar": g_imp, "cfg": {}, "input": None}, sig="compile", what=err)
        return u
    mm_imp_user = metamodel_from_str(refpeg.to_text(g_imp), classes=user_classes())
    for x in (mm_imp, mm_imp_user):
        x.register_scope_providers({"*.*": PlainNameImportURI()})
    libfn = os.path.join(core.rundir(), "c06lib-%d.m" % os.getpid())
    with open(libfn, "w") as fh:
        fh.write("n libnode h l libhead { l libleaf : 5 }")
    for toks in token_lists:
        text = 'import "%s"\n' % os.path.basename(libfn) + " ".join(toks)
        try:
            rv = interp_imp.load(text)
        except refpeg.Reject:
            continue
        for mode, mm in (("file/import", mm_imp), ("file/import/user-classes", mm_imp_user)):
            cid = ["tree", ck, text, mode]
            try:
                fn = os.path.join(core.rundir(), "c06main-%d.m" % os.getpid())
                with open(fn, "w", newline="") as fh:
                    fh.write(text)
                m = mm.model_from_file(fn)
                bad = check_model(m, text, rv, fn)
                lib = [x for x in m._tx_model_repository.all_models if x is not m]
                if len(lib) != 1 or any(o._tx_position >= o._tx_position_end or o._tx_position_end > 39 for o in lib[0].items):
                    bad.append(("imported model spans", [(o._tx_position, o._tx_position_end) for x in lib for o in x.items]))
            except Exception as e:
                bad = [("exception", "%s: %s" % (type(e).__name__, e))]
            u.case(cid, nontrivial=True)
            if bad:
                u.fail(cid, {"grammar": g_imp, "cfg": {}, "input": text, "mode": "file"}, sig="tree-import %s" % (bad[0][0],),
                       what="tree grammar with import | input=%r | %s :: %s" % (text, mode, json.dumps(bad[:2], default=str)[:400]))
    for toks in token_lists:
        for text in dict.fromkeys(layouts(toks, ck)):
            try:
                rv = interp.load(text)
            except refpeg.Reject:
                u.count("tree input rejected by the reference (layout inside a token)")
                continue
            for mode in ("str", "file", "str/grammar-file", "file/grammar-file", "str/user-classes", "file/user-classes"):
                cid = ["tree", ck, text, mode]
                mm = mm_file if "grammar-file" in mode else mm_user if "user-classes" in mode else mm_str
                mode = mode.split("/")[0]
                try:
                    if mode == "file":
                        fn = os.path.join(core.rundir(), "c06t-%d.txt" % os.getpid())
                        with open(fn, "w", newline="") as fh:
                            fh.write(text)
                        m = mm.model_from_file(fn)
                        with open(fn, newline=None) as fh:
                            seen = fh.read()
                        bad = check_model(m, seen, interp.load(seen) if seen != text else rv, fn)
                    else:
                        bad = check_model(mm.model_from_str(text), text, rv, None)
                except Exception as e:
                    bad = [("exception", "%s: %s" % (type(e).__name__, e))]
                u.case(cid, nontrivial=True)
                if bad:
                    u.fail(cid, {"grammar": g, "cfg": {}, "input": text, "mode": mode}, sig="tree %s" % (bad[0][0],),
                           what="tree grammar | input=%r | %s :: %s" % (text, mode, json.dumps(bad[:2])[:400]))
    return u


def replay(p):
    g = c01.totuple(p["grammar"])
    interp, mm, err = diff.compile_both(g, p["cfg"])
    if err:
        return False, {"compile_error": err}
    text = p["input"]
    rv = interp.load(text)
    if p.get("mode") == "file":
        fn = os.path.join(core.rundir(), "replay.txt")
        with open(fn, "w", newline="") as fh:
            fh.write(text)
        m = mm.model_from_file(fn)
        with open(fn, newline=None) as fh:
            seen = fh.read()
        bad = check_model(m, seen, interp.load(seen), fn)
        bad = [[b[0]] + [str(x).replace(core.rundir(), "<tmp>") for x in b[1:]] for b in bad]
    else:
        bad = check_model(mm.model_from_str(text), text, rv, None)
    return not bad, {"grammar": refpeg.to_text(g), "input": text, "failures": bad[:3]}
