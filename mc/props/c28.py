"""C28 - model loading errors point at the offending text.

E1: a two-file model family (main imports lib; definitions and references in both) and the same content as a single
string; one injected error of each kind at EVERY possible place: a garbage token at every token boundary (syntax error),
every reference renamed to an unknown name, every reference postponed forever, every referenced definition duplicated
(in the same file and in the other file: 'not unique'); each in the main or in the imported file; layouts shifted by
leading newlines, indentation and newline separators.
Oracle: the error's filename is the file containing the offending text (None for strings) and its line/col are those of
the first character of that text (garbage token / the reference), recomputed from the offset in that file's text.
"""

import os
import re

from mc import core
from mc.core import Unit, watchdog
from mc.sched import Sched

ID = "C28"
LEVEL = "exploration"
ENGINE = "E1-bounded-exhaustive-inputs"
TECHNIQUE = "exhaustive single-error injection at every token boundary / reference / definition of a multi-file model family x layouts; file/line/col oracle recomputed from offsets"
CLAIM = ("Every token boundary receives a garbage token, every reference is renamed, postponed forever, and made ambiguous by duplicating its target "
         "(locally and across files), in the main and in the imported file and in a string model, under four layouts; each resulting error must "
         "name the right file and the line/column of the offending text.")
NOTE = "Trusted: offset bookkeeping of the injector. One injected error per load."

GRAMMAR = """
Model: imports*=Import defs*=Def refs*=Ref;
Import: 'import' importURI=STRING;
Def: 'def' name=ID;
Ref: 'refs' name=ID '->' targets+=[Def][','] | 'ref' name=ID '->' target=[Def];
"""
MAIN = ['import', '"lib.m"', 'def', 'm1', 'def', 'm2', 'ref', 'a', '->', 'm1', 'ref', 'b', '->', 'l1', 'ref', 'c', '->', 'm2',
        'refs', 'd', '->', 'm2', ',', 'm1', ',', 'l2']
LIB = ['def', 'l1', 'def', 'l2', 'ref', 'x', '->', 'l2', 'ref', 'y', '->', 'l1', 'refs', 'z', '->', 'l1', ',', 'l2']
LAYOUTS = ["plain", "leading-newlines", "indented-lines", "one-token-per-line"]


def render(tokens, how):
    """-> text, list of start offsets per token"""
    starts = []
    if how == "plain":
        text = ""
        for t in tokens:
            if text:
                text += " "
            starts.append(len(text))
            text += t
        return text, starts
    if how == "leading-newlines":
        text = "\n\n"
    elif how == "indented-lines":
        text = "   "
    else:
        text = ""
    for i, t in enumerate(tokens):
        starts.append(len(text))
        text += t
        if how == "one-token-per-line":
            text += "\n"
        elif how == "indented-lines":
            text += "\n   " if t not in ("def", "ref", "->", "import") and tokens[i - 1] != "ref" else " "
        else:
            text += " "
    return text, starts


def linecol(text, pos):
    return text.count("\n", 0, pos) + 1, pos - (text.rfind("\n", 0, pos) + 1) + 1


def injections(tokens, which):
    """yields (label, new tokens, index of the offending token in the new list, kind)"""
    for i in range(len(tokens) + 1):
        yield ("garbage before token %d" % i, tokens[:i] + ["%%"] + tokens[i:], i, "syntax")
    for i, t in enumerate(tokens):
        if i >= 1 and tokens[i - 1] in ("->", ","):
            yield ("unknown reference at token %d" % i, tokens[:i] + ["nosuch"] + tokens[i + 1:], i, "unknown")
            yield ("postponed forever: reference at token %d" % i, list(tokens), i, "postponed")
            # duplicate the referenced definition in this file
            dup = ["def", t]
            k = tokens.index("ref")
            yield ("duplicate definition of %s in the same file" % t, tokens[:k] + dup + tokens[k:], i + 2, "notunique")


def run_case(where, label, toks, idx, kind, how, source):
    """where: 'main' | 'lib' | 'string'"""
    from textx import metamodel_from_str
    from textx.exceptions import TextXError
    from textx.scoping.providers import PlainNameImportURI, PlainName
    from textx.scoping import Postponed

    d = os.path.join(core.rundir(), "c28-%d" % os.getpid())
    os.makedirs(d, exist_ok=True)
    mm = metamodel_from_str(GRAMMAR)
    main_toks, lib_toks = list(MAIN), list(LIB)
    if where == "main":
        main_toks = toks
    elif where == "lib":
        lib_toks = toks
    else:
        main_toks = toks
    main_text, main_starts = render(main_toks, how)
    lib_text, lib_starts = render(lib_toks, how)
    if where == "lib":
        text, starts, fname = lib_text, lib_starts, os.path.join(d, "lib.m")
    else:
        text, starts, fname = main_text, main_starts, (os.path.join(d, "main.m") if where == "main" else None)
    off = starts[idx] if idx < len(starts) else len(text)
    line, col = linecol(text, off)
    target_pos = off
    target_file = fname

    class Prov(PlainNameImportURI):
        def __call__(self, obj, attr, obj_ref):
            from textx import get_model

            if kind == "postponed" and obj_ref.position == target_pos and get_model(obj)._tx_filename == target_file:
                return Postponed()
            return super().__call__(obj, attr, obj_ref)
    if where == "string":
        class Prov2(PlainName):
            def __call__(self, obj, attr, obj_ref):
                if kind == "postponed" and obj_ref.position == target_pos:
                    return Postponed()
                return super().__call__(obj, attr, obj_ref)
        mm.register_scope_providers({"*.*": Prov2()})
    else:
        mm.register_scope_providers({"*.*": Prov()})
    obs = {"where": where, "injection": label, "kind": kind, "layout": how, "text": text}
    try:
        if where == "string":
            mm.model_from_str(text)
        else:
            with open(os.path.join(d, "lib.m"), "w") as f:
                f.write(lib_text)
            with open(os.path.join(d, "main.m"), "w") as f:
                f.write(main_text)
            mm.model_from_file(os.path.join(d, "main.m"))
        obs["observed"] = "loaded"
        return None, obs  # the injection did not produce an error (e.g. garbage accepted?) - not judged
    except TextXError as e:
        got = (os.path.basename(e.filename) if e.filename else None, e.line, e.col)
        obs["message"] = str(e.message)[:100]
    except Exception as e:
        obs["observed"] = "%s: %s" % (type(e).__name__, e)
        return False, obs
    exp = (os.path.basename(fname) if fname else None, line, col)
    ok_set = {exp}
    if kind == "notunique":
        # every reference to the now ambiguous name (in either file) is offending text; which one the resolver meets first is not prescribed
        amb = toks[idx]
        for fn_, tl, (tx, st) in (("main.m" if where != "string" else None, main_toks, (main_text, main_starts)), ("lib.m", lib_toks, (lib_text, lib_starts))):
            if where == "string" and fn_ == "lib.m":
                continue
            for i, t in enumerate(tl):
                if t == amb and i >= 1 and tl[i - 1] in ("->", ","):
                    ok_set.add((fn_,) + linecol(tx, st[i]))
    obs["expected"] = sorted(ok_set, key=str)
    obs["observed"] = got
    return got in ok_set, obs


def all_cases():
    for how in LAYOUTS:
        for where, base in (("main", MAIN), ("lib", LIB), ("string", [t for t in MAIN[2:] if True])):
            if where == "string":
                base = ['def', 'm1', 'def', 'm2', 'ref', 'a', '->', 'm1', 'ref', 'c', '->', 'm2', 'refs', 'd', '->', 'm2', ',', 'm1']
            for label, toks, idx, kind in injections(base, where):
                if where != "string" and kind == "syntax" and idx < 2 and where == "main":
                    continue  # garbage inside the import statement changes which file is imported
                yield (where, label, toks, idx, kind, how)
    # cross-file ambiguity: the definition referenced from main (l1) exists in lib and is duplicated in lib
    for how in LAYOUTS:
        yield ("main", "duplicate definition of l1 in the imported file", None, MAIN.index("l1"), "notunique-cross", how)
        yield ("string", "duplicate definition of l1 in the file imported by a string model", None, MAIN.index("l1"), "notunique-cross-string", how)


def work(arg):
    cases = arg
    u = Unit()
    for c in cases:
        where, label, toks, idx, kind, how = c
        with watchdog(20):
            if kind.startswith("notunique-builtin"):
                ok, obs = run_builtin(how, kind.split(":")[1])
            elif kind == "notunique-cross-string":
                ok, obs = run_cross(how, True)
            elif kind == "notunique-cross":
                ok, obs = run_cross(how)
            else:
                ok, obs = run_case(where, label, toks, idx, kind, how, None)
        if ok is None:
            u.count("injection did not cause an error")
            continue
        cid = [where, label, how]
        u.case(cid, nontrivial=True, sample=obs if where == "lib" else None)
        u.count("kind:" + kind)
        if not ok:
            u.fail(cid, {"where": where, "label": label, "tokens": toks, "idx": idx, "kind": kind, "layout": how},
                   sig="%s in %s" % (kind, where), what=str({k: v for k, v in obs.items() if k != "text"})[:400] + " text=%r" % obs.get("text", "")[:150])
    return u


def run_cross(how, string_main=False):
    if string_main:
        return run_cross_string(how)
    from textx import metamodel_from_str
    from textx.exceptions import TextXError
    from textx.scoping.providers import PlainNameImportURI

    d = os.path.join(core.rundir(), "c28x-%d" % os.getpid())
    os.makedirs(d, exist_ok=True)
    mm = metamodel_from_str(GRAMMAR)
    mm.register_scope_providers({"*.*": PlainNameImportURI()})
    lib_toks = ['def', 'l1', 'def', 'l1', 'def', 'l2']
    main_text, ms = render(MAIN, how)
    lib_text, ls = render(lib_toks, how)
    with open(os.path.join(d, "lib.m"), "w") as f:
        f.write(lib_text)
    with open(os.path.join(d, "main.m"), "w") as f:
        f.write(main_text)
    off = ms[MAIN.index("l1")]
    line, col = linecol(main_text, off)
    obs = {"where": "main", "injection": "l1 defined twice in lib.m, referenced from main.m", "layout": how, "text": main_text}
    try:
        mm.model_from_file(os.path.join(d, "main.m"))
        obs["observed"] = "loaded"
        return False, obs
    except TextXError as e:
        got = (os.path.basename(e.filename) if e.filename else None, e.line, e.col)
        obs["message"] = e.message[:80]
    exp = ("main.m", line, col)
    obs["expected"], obs["observed"] = exp, got
    return got == exp, obs


def run_cross_string(how):
    """the MAIN model is given as a string (no file name) and imports lib.m by absolute path; l1 is defined twice in lib.m and referenced from
    the string: the 'not unique' error is located at the reference, i.e. in the string (file name None)"""
    from textx import metamodel_from_str
    from textx.exceptions import TextXError
    from textx.scoping.providers import PlainNameImportURI

    d = os.path.join(core.rundir(), "c28xs-%d" % os.getpid())
    os.makedirs(d, exist_ok=True)
    mm = metamodel_from_str(GRAMMAR)
    mm.register_scope_providers({"*.*": PlainNameImportURI()})
    lib_text, ls = render(['def', 'l1', 'def', 'l1', 'def', 'l2'], how)
    with open(os.path.join(d, "lib.m"), "w") as f:
        f.write(lib_text)
    toks = list(MAIN)
    toks[1] = '"%s"' % os.path.join(d, "lib.m")
    main_text, ms = render(toks, how)
    line, col = linecol(main_text, ms[toks.index("l1")])
    obs = {"where": "string main importing lib.m", "injection": "l1 defined twice in lib.m, referenced from the string", "layout": how, "text": main_text.replace(d, "<dir>")}
    try:
        mm.model_from_str(main_text)
        obs["observed"] = "loaded"
        return False, obs
    except TextXError as e:
        got = (os.path.basename(e.filename) if e.filename else None, e.line, e.col)
        obs["message"] = e.message[:80]
    except Exception as e:
        obs["observed"] = "%s: %s" % (type(e).__name__, str(e)[:100])
        return False, obs
    exp = (None, line, col)
    obs["expected"], obs["observed"] = exp, got
    return got == exp, obs


def run_builtin(how, where):
    """a name defined twice in a builtin model that was itself loaded from a string: neither model has a file name"""
    from textx import metamodel_from_str
    from textx.exceptions import TextXError
    from textx.scoping import ModelRepository
    from textx.scoping.providers import PlainNameImportURI

    mm = metamodel_from_str(GRAMMAR)
    mm.register_scope_providers({"*.*": PlainNameImportURI()})
    bm = metamodel_from_str(GRAMMAR).model_from_str("def z1 def z1 def z2 def z2 def z3")
    repo = ModelRepository()
    repo.add_model(bm)
    mm.builtin_models = repo
    toks = ['def', 'm1', 'def', 'm2', 'ref', 'a', '->', 'm1', 'ref', 'b', '->', 'z1' if where == "single" else 'z3', 'refs', 'd', '->', 'm2', ',', 'z3', ',',
            'z2' if where == "list" else 'm1']
    text, starts = render(toks, how)
    idx = toks.index("z1") if where == "single" else toks.index("z2")
    line, col = linecol(text, starts[idx])
    obs = {"where": "string model + string-loaded builtin model", "injection": "%s defined twice in the builtin model" % toks[idx], "layout": how, "text": text}
    try:
        mm.model_from_str(text)
        obs["observed"] = "loaded"
        return False, obs
    except TextXError as e:
        got = (e.filename, e.line, e.col)
        obs["message"] = e.message[:80]
    obs["expected"], obs["observed"] = (None, line, col), got
    return got == (None, line, col), obs


def run(ctx):
    cases = list(all_cases())
    cases += [("builtin", "ambiguous name in a string-loaded builtin model (%s reference)" % w, None, 0, "notunique-builtin:" + w, how) for how in LAYOUTS for w in ("single", "list")]
    ctx.pmap(work, [cases[i:i + 10] for i in range(0, len(cases), 10)])
    return {
        "rule": "case = (file with the error: main | imported | string model, injection point, layout of %s); injections = garbage token before every token, "
                "every reference renamed / postponed forever / made ambiguous; every case is a distinct failing load" % (LAYOUTS,),
        "exhaustive": True, "cases": len(cases), "same_in_both_tiers": True,
    }, ["for 'not unique' the offending text is the reference, not the duplicated definition"]


def replay(p):
    if p["kind"].startswith("notunique-builtin"):
        return run_builtin(p["layout"], p["kind"].split(":")[1])
    if p["kind"] == "notunique-cross-string":
        return run_cross(p["layout"], True)
    if p["kind"] == "notunique-cross":
        return run_cross(p["layout"])
    r = run_case(p["where"], p["label"], p["tokens"], p["idx"], p["kind"], p["layout"], None)
    return bool(r[0]), r[1]
