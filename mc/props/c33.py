"""C33 - errors raised by processors carry the location of the processed text.

E1: all forests of Node/Leaf objects up to N objects (every Leaf carries a value matched by the match rule Val); for
every object a failing object processor and for every value a failing match processor; error kinds {TextXError without
location, TextXError with its own complete location, TextXError with own line/col but no file name, ValueError through
textxerror_wrap}; loaded from strings and files; layouts shifted by leading newlines / indentation / newline separators.
Oracle: file name of the model (None for strings); line/col of the first character of the processed object or match
(offsets taken from an undisturbed load of the same text, whose spans C06 checks independently); nchar = length of the
object's text for object processors; processor-supplied location fields are kept.
"""

import os
import re

from mc import trees, core
from mc.core import Unit, watchdog

ID = "C33"
LEVEL = "exploration"
ENGINE = "E1-bounded-exhaustive-inputs"
TECHNIQUE = "bounded-exhaustive enumeration of models x failing processor target x error kind x source kind x layout; location oracle from offsets of an undisturbed load"
CLAIM = ("For every forest up to N objects, every object (object processor) and every value (match processor) is made the failing one in turn, "
         "for four error kinds, string and file sources and five layouts; the resulting TextXError must carry the model's file name, the "
         "line/col of the first character of the processed text, nchar for object processors, and must keep processor-supplied fields.")
NOTE = "Trusted: line/col computed by counting newlines before the offset; object offsets from an undisturbed load (C06 decides their correctness)."

GRAMMAR = """
Model: items*=Item;
Item: Node | Leaf;
Node: 'n' name=ID ('->' up=[Item])? ('h' head=Item)? '{' items*=Item '}';
Leaf: 'l' name=ID ('->' up=[Item])? (':' val=Val)?;
Val: /\\d+/;
"""
KINDS = ["textx-no-location", "textx-own-location", "textx-own-linecol-only", "wrapped-valueerror", "semantic-own-location", "syntax-own-location",
         "semantic-no-location"]
# "group": the same grammar with the value rule written with one regex group, meta-model created with use_regexp_group=True
GRAMMAR_GROUP = GRAMMAR.replace("Val: /\\d+/;", "Val: /(\\d+)/;")
# "composite": the value rule is a match rule with several parts (the processor is then called for the rule, not for a terminal)
GRAMMAR_COMPOSITE = GRAMMAR.replace("Val: /\\d+/;", "Val: '+'? /\\d+/ '%'?;")
# "goff": one regex group that does not start where the match starts (values are written v101), use_regexp_group=True
GRAMMAR_GOFF = GRAMMAR.replace("Val: /\\d+/;", "Val: /v(\\d+)/;")
LAYOUTS = ["plain", "leading-newlines", "indented", "newline-separated", "mixed"]
_S = {}


def layout(tokens, how):
    if how == "plain":
        return " ".join(tokens)
    if how == "leading-newlines":
        return "\n\n" + " ".join(tokens)
    if how == "indented":
        return "   " + " ".join(tokens)
    if how == "newline-separated":
        return "\n".join(tokens)
    out = "\n  "
    for i, t in enumerate(tokens):
        out += t + ("\n   " if i % 3 == 2 else " ")
    return out


def linecol(text, pos):
    return text.count("\n", 0, pos) + 1, pos - (text.rfind("\n", 0, pos) + 1) + 1


def mm(kind):
    from textx import metamodel_from_str

    if "mm" not in _S:
        _S["mm"] = metamodel_from_str(GRAMMAR)
        assert GRAMMAR_GROUP != GRAMMAR
        _S["mm-group"] = metamodel_from_str(GRAMMAR_GROUP, use_regexp_group=True)
        assert GRAMMAR_COMPOSITE != GRAMMAR and GRAMMAR_GOFF != GRAMMAR
        _S["mm-composite"] = metamodel_from_str(GRAMMAR_COMPOSITE)
        _S["mm-goff"] = metamodel_from_str(GRAMMAR_GOFF, use_regexp_group=True)
    return _S["mm-" + kind if kind else "mm"]


def mm_user(uc):
    """Node as a user class: a frozen dataclass (keeps a __dict__) or a class with __slots__ and no room for textX's bookkeeping"""
    from textx import metamodel_from_str

    if "uc-" + uc not in _S:
        if uc == "frozen":
            import dataclasses

            @dataclasses.dataclass(frozen=True, eq=False)
            class Node:
                parent: object
                name: str
                up: object
                head: object
                items: list
        else:
            class Node:
                __slots__ = ("parent", "name", "up", "head", "items")

                def __init__(self, parent, name, up, head, items):
                    self.parent, self.name, self.up, self.head, self.items = parent, name, up, head, items
        _S["uc-" + uc] = metamodel_from_str(GRAMMAR, classes=[Node])
    return _S["uc-" + uc]


def run_case(f, target, tkind, ekind, source, how, mmk=None, uc=None):
    """target: path of the object (tkind 'object') or of the leaf whose value fails (tkind 'match')"""
    from textx.exceptions import TextXError, TextXSemanticError, TextXSyntaxError
    from textx import textxerror_wrap

    nm = trees.names(f)
    vals = {p: 100 + i for i, (p, k) in enumerate(trees.flatten(f)) if k == "l"}
    text = layout(trees.render(f, nm, None, vals).split(" "), how)
    if mmk == "goff":
        text = re.sub(r"\b(1\d\d)\b", r"v\1", text)
    m_ = mm(mmk)
    m_.register_obj_processors({"Val": lambda x: int(x)})
    clean = m_.model_from_str(text)
    obj = trees.obj_at(clean, target)
    if tkind == "object":
        start, end = obj._tx_position, obj._tx_position_end
    else:
        mt = re.search(r"\b%s%d\b" % ("v" if mmk == "goff" else "", vals[target]), text)
        start, end = mt.start(), mt.end()
    line, col = linecol(text, start)
    fn = None
    if source == "file":
        fn = os.path.join(core.rundir(), "c33-%d.m" % os.getpid())
        with open(fn, "w") as fh:
            fh.write(text)
    own = {"line": 77, "col": 88, "filename": "own.file", "nchar": 5}
    tname = nm[target]
    tval = str(vals.get(target))
    if uc:
        m_ = mm_user(uc)  # the offsets above come from the load with plain classes

    def make_error():
        if ekind == "textx-no-location":
            return TextXError("boom")
        if ekind == "textx-own-location":
            return TextXError("boom", **own)
        if ekind == "textx-own-linecol-only":
            return TextXError("boom", line=own["line"], col=own["col"])
        if ekind == "semantic-own-location":
            return TextXSemanticError("boom", **own)
        if ekind == "syntax-own-location":
            return TextXSyntaxError("boom", **own)
        if ekind == "semantic-no-location":
            return TextXSemanticError("boom")
        return ValueError("boom")

    def objproc(o):
        if o.name == tname:
            raise make_error()

    def valproc(x):
        if x == tval:
            raise make_error()
        return int(x)
    if ekind == "wrapped-valueerror":
        objproc_, valproc_ = textxerror_wrap(objproc), textxerror_wrap(valproc)
    else:
        objproc_, valproc_ = objproc, valproc
    cls = "Node" if dict(trees.flatten(f))[target] == "n" else "Leaf"
    procs = {"Val": valproc_ if tkind == "match" else (lambda x: int(x))}
    if tkind == "object":
        procs[cls] = objproc_
    m_.register_obj_processors(procs)
    obs = {"text": text, "target": tname if tkind == "object" else "value %s" % tval, "error_kind": ekind, "source": source, "layout": how,
           "user_class": uc,
           "metamodel": {"group": "use_regexp_group=True, Val: /(\\d+)/", "composite": "Val: '+'? /\\d+/ '%'?", "goff": "use_regexp_group=True, Val: /v(\\d+)/"}.get(mmk, "default")}
    try:
        if source == "file":
            m_.model_from_file(fn)
        else:
            m_.model_from_str(text)
        obs["observed"] = "no error"
        return False, obs
    except TextXError as e:
        got = {"line": e.line, "col": e.col, "filename": e.filename, "nchar": e.nchar}
    except Exception as e:
        obs["observed"] = "%s: %s" % (type(e).__name__, e)
        # a non-textX exception from a match processor wrapped by textxerror_wrap has no object: TextXError without location is allowed to be completed
        return False, obs
    exp = {"line": line, "col": col, "filename": fn, "nchar": (end - start) if tkind == "object" else None}
    if ekind.endswith("-own-location"):
        exp = dict(own)
    elif ekind == "textx-own-linecol-only":
        exp["line"], exp["col"] = own["line"], own["col"]
    if tkind == "match":
        got.pop("nchar")
        exp.pop("nchar")
    obs["expected"] = {k: (v if k != "filename" or v is None else os.path.basename(v)) for k, v in exp.items()}
    obs["observed"] = {k: (v if k != "filename" or v is None else os.path.basename(v)) for k, v in got.items()}
    return got == exp, obs


ABS_GRAMMAR = """
Model: vals+=Val;
Val: Obj | STRING | INT;
Obj: 'obj' name=ID;
"""
ABS_TOKENS = ["obj a", "'x'", "3", "obj b", "'y'"]


def abs_cases(n):
    import itertools

    for k in range(1, n + 1):
        for seq in itertools.product(range(len(ABS_TOKENS)), repeat=k):
            if len(set(seq)) == len(seq):
                for t in range(k):
                    yield seq, t


def run_abs(seq, t, ekind, source, how):
    """a processor registered for an ABSTRACT rule whose alternatives include base types: it is called for objects and for plain values"""
    from textx import metamodel_from_str, textxerror_wrap
    from textx.exceptions import TextXError, TextXSemanticError

    if "abs" not in _S:
        _S["abs"] = metamodel_from_str(ABS_GRAMMAR)
    m_ = _S["abs"]
    toks = [ABS_TOKENS[i] for i in seq]
    parts = []
    for tk in toks:
        parts += tk.split(" ")
    text = layout(parts, how)
    starts = []
    pos = 0
    for tk in toks:
        first = tk.split(" ")[0]
        pos = text.index(first, pos)
        starts.append(pos)
        pos += len(first)
    line, col = linecol(text, starts[t])
    target = toks[t]

    def is_target(v):
        if target.startswith("obj"):
            return getattr(v, "name", None) == target[4:]
        return v == (int(target) if target.isdigit() else target.strip("'"))

    def proc(v):
        if is_target(v):
            if ekind == "textx-no-location":
                raise TextXError("boom")
            if ekind == "semantic-no-location":
                raise TextXSemanticError("boom")
            raise ValueError("boom")
    m_.register_obj_processors({"Val": textxerror_wrap(proc) if ekind == "wrapped-valueerror" else proc})
    fn = None
    if source == "file":
        fn = os.path.join(core.rundir(), "c33a-%d.m" % os.getpid())
        with open(fn, "w") as fh:
            fh.write(text)
    obs = {"grammar": "Val: Obj | STRING | INT", "text": text, "target": target, "error_kind": ekind, "source": source, "layout": how}
    try:
        m_.model_from_file(fn) if fn else m_.model_from_str(text)
        obs["observed"] = "no error"
        return False, obs
    except TextXError as e:
        got = {"line": e.line, "col": e.col, "filename": e.filename}
    except Exception as e:
        obs["observed"] = "%s: %s" % (type(e).__name__, e)
        return False, obs
    exp = {"line": line, "col": col, "filename": fn}
    obs["expected"] = dict(exp, filename=os.path.basename(fn) if fn else None)
    obs["observed"] = dict(got, filename=os.path.basename(got["filename"]) if got["filename"] else None)
    obs["primitive"] = not target.startswith("obj")
    return got == exp, obs


def work_abs(arg):
    u = Unit()
    for seq, t in arg:
        for ekind in ("textx-no-location", "semantic-no-location", "wrapped-valueerror"):
            for source in ("str", "file"):
                for how in ("plain", "mixed"):
                    cid = ["abs", list(seq), t, ekind, source, how]
                    with watchdog(20):
                        ok, obs = run_abs(seq, t, ekind, source, how)
                    u.case(cid, nontrivial=True, sample=obs if how == "mixed" and source == "file" and len(seq) == 3 else None)
                    u.count("abstract-rule-processor/" + ("value" if obs.get("primitive") else "object"))
                    if not ok:
                        key = None
                        if obs.get("primitive") and obs.get("observed") == {"line": None, "col": None, "filename": None}:
                            key = "abstract_rule_primitive_value_has_no_location"
                        u.fail(cid, {"abs": list(seq), "t": t, "ekind": ekind, "source": source, "layout": how}, sig="abs %s %s" % (ekind, obs.get("primitive")),
                               what=str(obs)[:500], key=key)
    return u


def work(arg):
    fs = arg
    u = Unit()
    for f in fs:
        for p, k in trees.flatten(f):
            for tkind in (("object", "match") if k == "l" else ("object",)):
                for ekind in KINDS:
                    for source in ("str", "file"):
                        for how in LAYOUTS:
                            variants = [(m, None) for m in ((None, "group", "composite", "goff") if tkind == "match" else (None,))]
                            if tkind == "object" and k == "n" and how in ("indented", "mixed"):
                                variants += [(None, "frozen"), (None, "slots")]
                            for mmk, uc in variants:
                                cid = [f, p, tkind, ekind, source, how, mmk] + ([uc] if uc else [])
                                with watchdog(20):
                                    ok, obs = run_case(f, p, tkind, ekind, source, how, mmk, uc)
                                u.case(cid, nontrivial=True, sample=obs if how == "mixed" and source == "file" else None)
                                u.count("%s/%s" % (tkind, ekind))
                                if uc:
                                    u.count("user-class:" + uc)
                                if not ok:
                                    key = None
                                    if uc in ("slots", "frozen") and isinstance(obs.get("observed"), dict) and obs["observed"]["filename"] == obs["expected"]["filename"]:
                                        key = "immutable_user_class_has_no_position"
                                    u.fail(cid, {"forest": f, "target": p, "tkind": tkind, "ekind": ekind, "source": source, "layout": how, "mm": mmk, "uc": uc},
                                           sig="%s %s %s %s %s" % (tkind, ekind, source, mmk, uc), what=str(obs)[:500], key=key)
    return u


def tup(x):
    return tuple(tup(i) for i in x) if isinstance(x, (list, tuple)) else x


def run(ctx):
    N = 3 if ctx.tier == "quick" else 4
    fs = [f for n in range(1, N + 1) for f in trees.forests(n)]
    ctx.pmap(work, [fs[i:i + 3] for i in range(0, len(fs), 3)])
    ac = list(abs_cases(3 if ctx.tier == "quick" else 4))
    ctx.pmap(work_abs, [ac[i:i + 12] for i in range(0, len(ac), 12)])
    return {
        "rule": "case = (forest up to %d objects, failing target = each object / each value, error kind of %s, string|file, layout of %s); every case "
                "is a distinct failing load" % (N, KINDS, LAYOUTS),
        "exhaustive": True, "forests": len(fs),
    }, ["textxerror_wrap around a match processor receives a plain string (no object): the location then comes from the metamodel's completion of the error"]


def replay(p):
    if "abs" in p:
        return run_abs(tuple(p["abs"]), p["t"], p["ekind"], p["source"], p["layout"])
    return run_case(tup(p["forest"]), tup(p["target"]), p["tkind"], p["ekind"], p["source"], p["layout"], p.get("mm"), p.get("uc"))
