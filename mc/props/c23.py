"""C23 - invalid grammars are always reported as textX errors.

E1: grammar texts printed from the F-expr / F-rules families and a set of hand-written grammars covering the full
syntax (valid base), plus EVERY single-point mutation of each from a fixed operator list applied at every token position:
drop / duplicate / swap-adjacent tokens; rule reference -> undefined name; regex -> '/(/', '/[/', '/*/'; rule parameter ->
each of a list of bad forms; rule body -> self reference / mutual reference cycle; link to a base type; modifiers on '?'
and '='; '?=' twice / inside repetition; bad RREL forms; empty and comment-only text.
Oracle: metamodel_from_str returns a metamodel or raises a TextXError (with a non-empty message); any other exception
type (RecursionError, TypeError, AssertionError, KeyError ...) or a hang is a violation.  The statement names the two
subclasses TextXSyntaxError/TextXSemanticError; the check accepts any TextXError instance (weaker, never alarms on
conforming code).
"""

import os
import re

from mc import refpeg, gramgen
from mc import core
from mc.core import Unit, watchdog, CaseTimeout

ID = "C23"
LEVEL = "exploration"
ENGINE = "E1-bounded-exhaustive-inputs"
TECHNIQUE = "exhaustive single-point mutation of grammar texts at every token position (fixed operator list) over generated and hand-written valid grammars; exception-type oracle with watchdog"
CLAIM = ("Every grammar text of the valid base and every single-token mutation of it (operators x positions) is given to metamodel_from_str; "
         "the call must return or raise a TextXError with a message - never another exception type and never hang.")
NOTE = "Only grammars given as strings (the documented exception 'import in a string grammar' is excluded by not generating import statements). Any TextXError subclass is accepted."

HAND = [
    "Model: 'a' x=INT y+=ID[','] z*=STRING[eolterm] (b?='b')? c=[Model] d=[Model:ID] e=[Model:FQN|^x.y*] ; FQN: ID('.'ID)*; Comment: /#.*$/;",
    "A[noskipws]: B | C; B[ws=' \\n']: 'b' v=FLOAT; C[skipws]: !'x' &'c' 'c'- (D | 'e')# ; D: /[a-z]+/ | NUMBER | BOOL;",
    "M: (a=INT | 'x' b=A)* ('y' c+=A[/,|;/ eolterm])? ; A: n=ID ('.' ns+=ID)+ ;",
    "M: xs+=X; X: Y | Z; Y: 'y' r=[X:ID|+pm:^xs] ; Z: 'z' name=ID q=[Z:ID|'fix'~xs, ..xs.(xs)*, parent(M).xs] ;",
    "reference textx as tx  M: a=INT;",
    # classes of a referenced language, also of the textX language itself
    "reference textX  A: a=[textX.TextxRule] b=[textX.Nope];",
    "reference textx as tx  A: a=[tx.RuleBody] | b=[tx.Assignment:ID];",
    # rule bodies that are a single (suppressed) rule reference, directly and through a chain
    "Wrap: Body-; Body: val=INT;",
    "M: w=Wrap; Wrap: Link; Link: Body-; Body: val=INT | 'x' Wrap;",
    "M: x=A y=B; A: B; B: C; C: /c+/ | INT;",
    # an attribute assigned with '?=' and again with '=' / '+=' in every order and nesting that the compiler accepts
    "Model: flag?='on' ('+' other=ID)* (opt?='x' val=INT)? ('k' k=INT)+ ('z' k=INT)?;",
]
BAD_PARAMS = ["[nows]", "[nosplit]", "[noskipws, nows]", "[foo]", "[ws]", "[split]", "[split='']", "[skipws='x']", "[ws=]", "[noskipws, noskipws, ws='a', ws='b']", "[split=' ', ws='\\\\q']"]
BAD_ESCAPES = [r"'\N{foo}'", r"'\x'", r"'\u12'", r"'\U0011'", r"'\N{BULLET}'", r"'a\\'", '"\\N{nope}x"']
ODD_RULE_NAMES = ["__asgn_x", "__asgnfoo", "__asgn_plain", "_", "__init__", "OBJECT", "ID", "Comment", "import", "eolterm"]
BAD_REGEX = ["/(/", "/[/", "/*/", "/(?P<a>x)(?P<a>y)/", "/\\\\/", "/a{4294967296}/", "/[0-9]{1,99999999999}/", "/" + "(" * 120 + "a" + ")" * 120 + "/", "/(?i)a(?z)/"]
BAD_RREL = ["[M:ID|]", "[M:ID|^]", "[M:ID|+x:a]", "[M:ID|a..b]", "[M:ID|a*.*]", "[M:ID|parent()]", "[M:ID|(a]", "[M:ID|'x'~]", "[M|ID|a", "[M:ID|~]"]
TOKEN = re.compile(r"""\s+|//[^\n]*|/\*.*?\*/|(?P<tok>'(?:\\'|[^'])*'|"(?:\\"|[^"])*"|/(?:\\/|[^/\s])+/|\w+|[*+?#]=|[^\s\w])""", re.S)


def tokens(text):
    return [m.group("tok") for m in TOKEN.finditer(text) if m.group("tok")]


def mutations(text):
    toks = tokens(text)
    n = len(toks)
    J = " ".join
    for i in range(n):
        yield "drop@%d" % i, J(toks[:i] + toks[i + 1:])
        yield "dup@%d" % i, J(toks[:i + 1] + toks[i:])
        if i + 1 < n:
            yield "swap@%d" % i, J(toks[:i] + [toks[i + 1], toks[i]] + toks[i + 2:])
        t = toks[i]
        if re.fullmatch(r"[A-Za-z_]\w*", t):
            yield "undefined@%d" % i, J(toks[:i] + ["Undef9"] + toks[i + 1:])
            if i + 1 < n and toks[i + 1] == ":" and (i == 0 or toks[i - 1] == ";"):
                for rn in ODD_RULE_NAMES:
                    # the rule is renamed consistently (definition and every use)
                    yield "rule-renamed-%s@%d" % (rn, i), J([rn if x == t else x for x in toks])
                for bp in BAD_PARAMS:
                    yield "param%s@%d" % (bp, i), J(toks[:i + 1] + [bp] + toks[i + 1:])
                yield "selfref@%d" % i, J(toks[:i + 2] + [t, ";"] + toks[i:])
                yield "selfref-choice@%d" % i, J(toks[:i + 2] + [t, "|", "'q'", ";"] + toks[i:])
                yield "mutual@%d" % i, "Zz1: Zz2; Zz2: Zz1; " + J(toks)
                # reference cycles that do not go through the rule they are entered from
                yield "tail-cycle@%d" % i, J(toks) + " Zz0: Zz1; Zz1: Zz2; Zz2: Zz1;"
                yield "tail-selfcycle@%d" % i, J(toks) + " Zz0: Zz1; Zz1: Zz1;"
                yield "tail-cycle-suppressed@%d" % i, J(toks) + " Zz0: 'z' Zz1-; Zz1: Zz2; Zz2: Zz3; Zz3: Zz2;"
                yield "comment-cycle@%d" % i, J(toks) + " Comment: Cx; Cx: Cy; Cy: Cx;"
            if i >= 1 and toks[i - 1] in ("=", "+=", "*=", "?="):
                yield "link-basetype@%d" % i, J(toks[:i] + ["[INT]"] + toks[i + 1:])
                yield "link-undefined@%d" % i, J(toks[:i] + ["[Nope]"] + toks[i + 1:])
                yield "link-qualified-undefined@%d" % i, J(toks[:i] + ["[no.Such]"] + toks[i + 1:])
                yield "link-matchrule-cycle@%d" % i, J(toks[:i] + ["[%s|Nm9]" % toks[0]] + toks[i + 1:]) + " Nm9: Nx9; Nx9: Ny9; Ny9: Nx9;"
                for br in BAD_RREL:
                    yield "rrel%s@%d" % (br, i), J(toks[:i] + [br] + toks[i + 1:])
                yield "mod-on-plain@%d" % i, J(toks[:i + 1] + ["[',']"] + toks[i + 1:])
        if t.startswith("/") and len(t) > 1:
            for br in BAD_REGEX:
                yield "regex%s@%d" % (br, i), J(toks[:i] + [br] + toks[i + 1:])
        if t.startswith("'") or t.startswith('"'):
            yield "regex-for-literal@%d" % i, J(toks[:i] + ["/(/"] + toks[i + 1:])
            for be in BAD_ESCAPES:
                yield "escape%s@%d" % (be, i), J(toks[:i] + [be] + toks[i + 1:])
        if t == "?":
            yield "mod-on-opt@%d" % i, J(toks[:i + 1] + ["[',']"] + toks[i + 1:])
        if t in ("=", "+=", "*="):
            yield "boolasg@%d" % i, J(toks[:i] + ["?="] + toks[i + 1:])
        if t == "?=":
            yield "boolasg-in-rep@%d" % i, J(toks[:max(0, i - 1)] + ["(", toks[i - 1], "?=", toks[i + 1] if i + 1 < n else "'x'", ")", "*"] + toks[i + 2:])
            yield "boolasg-twice@%d" % i, J(toks[:i + 2] + [toks[i - 1], "?=", "'z'"] + toks[i + 2:])


def option_sets():
    """documented keyword arguments of metamodel_from_str that take part in compiling the grammar; built anew for every call"""
    import io
    import os

    def named(n):
        return type(n, (), {"__init__": lambda self, **kw: None})

    def closed_then_fresh():
        # history: a meta-model was built with debug output going to a file that is closed by now
        from textx import metamodel_from_str

        devnull = open(os.devnull, "w")
        metamodel_from_str("First: 'x';", debug=True, file=devnull)
        devnull.close()
        return {"debug": True, "file": io.StringIO()}
    return {
        "classes-callable-same-name": lambda: {"classes": lambda n: named(n) if n in ("Model", "A", "M") else None},
        "classes-callable-other-name": lambda: {"classes": lambda n: named("My" + n) if n in ("Model", "A", "M") else None},
        "classes-list-unused": lambda: {"classes": [named("NotARule")]},
        "classes-list-builtin-name": lambda: {"classes": [named("ID"), named("Model")]},
        "builtins-and-repo": lambda: {"builtins": {"x": 1}, "global_repository": True, "textx_tools_support": True},
        "debug-after-closed-file": closed_then_fresh,
    }


def outcome(text, opt=None):
    from textx import metamodel_from_str as _mfs
    from textx.exceptions import TextXError

    def metamodel_from_str(t):
        if opt is None:
            return _mfs(t)
        cwd = os.getcwd()
        os.chdir(core.rundir())  # debug=True writes dot files into the working directory
        try:
            return _mfs(t, **option_sets()[opt]())
        finally:
            os.chdir(cwd)
    try:
        with watchdog(5):
            metamodel_from_str(text)
        return "ok", None
    except CaseTimeout:
        try:
            with watchdog(30):
                metamodel_from_str(text)
            return "ok", None
        except CaseTimeout:
            return "BAD", "hang (no result within 30 s CPU)"
        except TextXError as e:
            return ("textx", type(e).__name__) if str(getattr(e, "message", "")) else ("BAD", "TextXError without message")
        except BaseException as e:
            return "BAD", "%s: %s" % (type(e).__name__, str(e)[:100])
    except TextXError as e:
        if not str(getattr(e, "message", "")):
            return "BAD", "TextXError without message"
        return "textx", type(e).__name__
    except RecursionError:
        return "BAD", "RecursionError"
    except BaseException as e:
        return "BAD", "%s: %s" % (type(e).__name__, str(e)[:100])


def work(arg):
    bases = arg
    u = Unit()
    for text in bases:
        cases = [("base", text)] + list(mutations(text))
        seen = set()
        for label, t in cases:
            if t in seen:
                continue
            seen.add(t)
            kind, info = outcome(t)
            u.case([t], nontrivial=kind != "ok", sample={"mutation": label, "grammar": t, "outcome": [kind, info]} if kind == "textx" else None)
            u.count("outcome:%s" % (kind if kind != "textx" else info))
            if kind == "BAD":
                op = re.sub(r"@\d+$", "", label)
                u.fail([t], {"grammar": t}, sig="%s -> %s" % (op[:40], info.split(":")[0]), what="mutation %s: %r -> %s" % (label, t[:300], info))
    return u


OPTION_BASES = ["Model: points+=A; A: x=INT ',' y=INT;", "M: a=A | b=B; A: B | 'a' name=ID; B: 'b' v=INT;", "Model: 'only';", "Model: x=Nope;", "Model: 'a'"]


def work_options(arg):
    u = Unit()
    for text, opt in arg:
        kind, info = outcome(text, opt)
        cid = ["options", opt, text]
        u.case(cid, nontrivial=True, sample={"options": opt, "grammar": text, "outcome": [kind, info]})
        u.count("options:%s:%s" % (opt, kind if kind != "textx" else info))
        if kind == "BAD":
            u.fail(cid, {"grammar": text, "opt": opt}, sig="options %s -> %s" % (opt, info.split(":")[0]), what="options %s: %r -> %s" % (opt, text, info))
    return u


def bases(tier):
    out = list(HAND)
    out += ["", "  \n", "// only a comment\n", "/* block */", "A", "A:", "A: ;", ";", "A: 'a'", "A: 'a';;"]
    for size in ((1, 2) if tier == "quick" else (1, 2, 3)):
        bs = [b for b in gramgen.bodies("quick", size) if gramgen.valid(b)]
        if size == 3:
            bs = bs[::7]
        elif size == 2 and tier == "quick":
            bs = bs[::2]
        out += [refpeg.to_text(gramgen.grammar_for(b)) for b in bs]
    fr = list(gramgen.frules("quick"))
    out += [refpeg.to_text(g) for _, g in (fr[::25] if tier == "quick" else fr[::5])]
    return list(dict.fromkeys(out))


def run(ctx):
    bs = bases(ctx.tier)
    ctx.pmap(work, [bs[i:i + 4] for i in range(0, len(bs), 4)])
    oc = [(t, o) for o in option_sets() for t in OPTION_BASES]
    ctx.pmap(work_options, [oc[i:i + 5] for i in range(0, len(oc), 5)])
    return {
        "rule": "case = one grammar text; bases = %d valid grammars (hand-written full-syntax grammars, generated F-expr and F-rules grammars, degenerate texts); "
                "every mutation operator is applied at every token position where it is applicable; non-trivial = the text is refused" % len(bs),
        "exhaustive": True, "bases": len(bs),
    }, ["a TextXError of any subclass with a non-empty message is accepted"]


def replay(p):
    kind, info = outcome(p["grammar"], p.get("opt"))
    return kind != "BAD", {"grammar": p["grammar"], "outcome": [kind, info]}
