"""C32 - scope provider selection follows the documented precedence.

E1 over configurations: all 16 subsets of the registration keys {U.a, *.a, U.*, *.*} (and the same
for the other attributes), each key bound to a provider with its own distinguishable target or to an
RREL string, with and without an RREL in the grammar, for single and list attributes in two rules.
Oracle: grammar RREL, else first of Rule.attr, *.attr, Rule.*, *.*, else default.
"""

import itertools

from mc.core import Unit, watchdog

ID = "C32"
LEVEL = "exploration"
ENGINE = "E1-bounded-exhaustive-inputs"
TECHNIQUE = "exhaustive enumeration of provider-registration configurations x reference sites on the real resolver; precedence table oracle"
CLAIM = ("For each of four reference sites (single and list attributes in two rules) every subset of the four registration keys that can "
         "apply to it plus distracting keys of other rules/attributes, every choice of which key is an RREL string instead of a callable, "
         "and every grammar variant (no RREL / RREL on that site) is loaded; the provider actually called and the resolved object must be "
         "the one the documented precedence selects, and no other provider may be called.")
NOTE = "Trusted: recording providers. Keys are full rule/attribute names; imported grammars (qualified class names) are not covered."

SITES = {"U.a": ("U", "a"), "U.b": ("U", "b"), "U.l": ("U", "l"), "V.a": ("V", "a")}


def grammar(rrel_site):
    def ref(site):
        return "[D:ID|alts]" if site == rrel_site else "[D]"
    return """
Model: defs*=D ('alts' alts*=D)? elems*=E;
E: U | V;
D: 'd' name=ID;
U: 'u' ('a' a=%s)? ('b' b=%s)? ('[' l+=%s[','] ']')?;
V: 'v' a=%s;
""" % (ref("U.a"), ref("U.b"), ref("U.l"), ref("V.a"))


_MM = {}


def mm_for(rrel_site):
    if rrel_site not in _MM:
        from textx import metamodel_from_str

        _MM[rrel_site] = metamodel_from_str(grammar(rrel_site))
    return _MM[rrel_site]


def keys_for(site):
    r, a = SITES[site]
    return ["%s.%s" % (r, a), "*.%s" % a, "%s.*" % r, "*.*"]


def distractors(site):
    r, a = SITES[site]
    other_r = "V" if r == "U" else "U"
    other_a = "b" if a != "b" else "a"
    return ["%s.%s" % (other_r, other_a), "%s.%s" % (r, other_a) if (r, other_a) != (r, a) else None]


def model_text(site, with_alts):
    text = "d x d p0 d p1 d p2 d p3 d q0 d q1 "
    if with_alts:
        text += "alts d x d y "
    if site == "U.a":
        text += "u a x"
    elif site == "U.b":
        text += "u b x"
    elif site == "U.l":
        text += "u [ x , x ]"
    else:
        text += "v x"
    return text


def run_case(site, subset, string_key, rrel_in_grammar, with_distractors):
    """subset: tuple of bools for keys_for(site); string_key: index into keys (bound to RREL string 'alts') or None."""
    from textx.exceptions import TextXSemanticError

    keys = keys_for(site)
    mm = mm_for(site if rrel_in_grammar else None)
    with_alts = rrel_in_grammar or string_key is not None
    text = model_text(site, with_alts)
    calls = []

    def mk(label, target):
        def prov(obj, attr, obj_ref):
            calls.append(label)
            from textx import get_model

            return next(d for d in get_model(obj).defs if d.name == target)
        return prov

    reg = {}
    for i, k in enumerate(keys):
        if subset[i]:
            reg[k] = "alts" if string_key == i else mk(k, "p%d" % i)
    if with_distractors:
        for j, k in enumerate(distractors(site)):
            if k and k not in reg:
                reg[k] = mk("distractor:" + k, "q%d" % j)
    mm.register_scope_providers(reg)
    # expected
    if rrel_in_grammar:
        exp = ("alts.x", [])
    else:
        exp = None
        for i, k in enumerate(keys):
            if subset[i]:
                exp = ("alts.x", []) if string_key == i else ("p%d" % i, [k])
                break
        if exp is None:
            exp = ("not-unique-error", []) if with_alts else ("defs.x", [])
    n = 2 if site == "U.l" else 1
    exp = (exp[0], exp[1] * n)
    obs = {"site": site, "registered": {k: (v if isinstance(v, str) else "callable") for k, v in reg.items()},
           "grammar_rrel": rrel_in_grammar, "text": text, "expected": exp}
    try:
        m = mm.model_from_str(text)
    except TextXSemanticError as e:
        obs["observed"] = ("error:" + e.message, calls)
        return exp[0] == "not-unique-error" and "not unique" in e.message and calls == exp[1], obs
    except Exception as e:
        obs["observed"] = ("%s: %s" % (type(e).__name__, e), calls)
        return False, obs
    r, a = SITES[site]
    holder = next(e for e in m.elems if type(e).__name__ == r)
    vals = getattr(holder, a)
    vals = vals if isinstance(vals, list) else [vals]
    labels = []
    for v in vals:
        if v in m.defs:
            labels.append(("defs." if v.name == "x" else "") + v.name)
        elif v in m.alts:
            labels.append("alts." + v.name)
        else:
            labels.append(repr(v))
    obs["observed"] = (labels, calls)
    return labels == [exp[0]] * n and calls == exp[1], obs


# ---- family 4: one attribute assigned in two alternatives, only one of them carries the RREL ---------
def run_twice(order, alt, subset):
    """The RREL belongs to the ATTRIBUTE: whichever alternative matched, and whichever is written first, 'alts' decides."""
    from textx import metamodel_from_str

    k = ("twice", order)
    if k not in _MM:
        a1, a2 = "'x' r=[D:ID|alts]", "'y' r=[D]"
        _MM[k] = metamodel_from_str("Model: defs*=D ('alts' alts*=D)? elems*=W; D: 'd' name=ID; W: 'w' ( %s | %s );" % ((a1, a2) if order == 0 else (a2, a1)))
    mm = _MM[k]
    calls = []
    keys = ["W.r", "*.r", "W.*", "*.*"]

    def mk(label, target):
        def prov(obj, attr, obj_ref):
            calls.append(label)
            from textx import get_model

            return next(d for d in get_model(obj).defs if d.name == target)
        return prov
    reg = {kk: mk(kk, "p%d" % i) for i, kk in enumerate(keys) if subset[i]}
    mm.register_scope_providers(reg)
    text = "d x d p0 d p1 d p2 d p3 alts d x d y w %s x" % alt
    obs = {"grammar": "W: 'w' ( %s )" % ("'x' r=[D:ID|alts] | 'y' r=[D]" if order == 0 else "'y' r=[D] | 'x' r=[D:ID|alts]"), "text": text,
           "registered": sorted(reg), "expected": ("alts.x", [])}
    try:
        m = mm.model_from_str(text)
        v = m.elems[0].r
        label = ("alts." + v.name) if v in m.alts else ("defs." + v.name)
        obs["observed"] = (label, list(calls))
    except Exception as e:
        obs["observed"] = ("%s: %s" % (type(e).__name__, e), list(calls))
    return obs["observed"] == obs["expected"], obs


# ---- family 5: a '+m:' expression registered as a string vs written in the grammar, on multi-file models -----------------
LOADER_MODELS = {"no-reference": ('import "lib.m" d x', "d y"), "with-reference": ('import "lib.m" d x u y', "d y"), "missing-import": ('import "missing.m" d x', "d y"),
                 "missing-import-with-reference": ('import "missing.m" d x u x', "d y")}


def run_loader(model_name):
    """both forms must load the same files (also when the model holds no reference that uses the expression) and fail alike"""
    import os

    from mc import core
    from textx import metamodel_from_str

    d = os.path.join(core.rundir(), "c32l-%d" % os.getpid())
    os.makedirs(d, exist_ok=True)
    main, lib = LOADER_MODELS[model_name]
    for fn, t in (("main.m", main), ("lib.m", lib)):
        with open(os.path.join(d, fn), "w") as f:
            f.write(t)
    g = "Model: imports*=Import defs*=D uses*=U; Import: 'import' importURI=STRING; D: 'd' name=ID; U: 'u' ref=[D:ID%s];"
    out = {}
    for form in ("grammar", "registered"):
        mm = metamodel_from_str(g % ("|+m:defs" if form == "grammar" else ""))
        if form == "registered":
            mm.register_scope_providers({"U.ref": "+m:defs"})
        try:
            m = mm.model_from_file(os.path.join(d, "main.m"))
            repo = getattr(m, "_tx_model_repository", None)
            out[form] = ("loaded", sorted(os.path.basename(k) for k in repo.all_models.filename_to_model) if repo is not None else None,
                         [getattr(u.ref, "name", None) for u in m.uses])
        except Exception as e:
            out[form] = ("error", type(e).__name__)
    return out["grammar"] == out["registered"], {"family": "+m: loader", "model": main, "grammar_form": out["grammar"], "registered_form": out["registered"]}


def work5(cs):
    u = Unit()
    for name in cs:
        with watchdog(20):
            ok, obs = run_loader(name)
        u.case(["loader", name], nontrivial=True, sample=obs)
        u.count("family5-model-loader")
        if not ok:
            u.fail(["loader", name], {"loader": name}, sig="loader " + name, what=repr(obs)[:500])
    return u


def work4(cs):
    u = Unit()
    for c in cs:
        with watchdog(10):
            ok, obs = run_twice(*c)
        u.case(["twice"] + list(c), nontrivial=True, sample=obs if sum(c[2]) == 2 else None)
        u.count("family4-attribute-assigned-twice")
        if not ok:
            u.fail(["twice"] + list(c), {"twice": list(c)}, sig="twice %s %s" % (c[0], c[1]), what=repr(obs)[:500])
    return u


# ---- family 2: all four sites in one model, callable providers only -------------------------
ALLKEYS = ["U.a", "*.a", "U.*", "*.*", "V.a", "V.*", "U.b", "*.b", "U.l", "*.l"]


def expected_key(site, registered):
    for k in keys_for(site):
        if k in registered:
            return k
    return None


def run_multi(mask, order):
    mm = mm_for(None)
    calls = []

    def mk(label):
        def prov(obj, attr, obj_ref):
            calls.append((type(obj).__name__ + "." + attr.name, label))
            from textx import get_model

            return next(d for d in get_model(obj).defs if d.name == "p0")
        return prov

    registered = [k for i, k in enumerate(ALLKEYS) if mask >> i & 1]
    mm.register_scope_providers({k: mk(k) for k in registered})
    u, v = "u a x b x [ x , x ]", "v x"
    text = "d x d p0 " + (u + " " + v if order == 0 else v + " " + u)
    exp = []
    for site, n in (("U.a", 1), ("U.b", 1), ("U.l", 2), ("V.a", 1)):
        k = expected_key(site, registered)
        if k is not None:
            exp += [(site, k)] * n
    obs = {"text": text, "registered": registered, "expected_calls": sorted(exp)}
    try:
        m = mm.model_from_str(text)
    except Exception as e:
        obs["observed"] = "%s: %s" % (type(e).__name__, e)
        return False, obs
    obs["observed_calls"] = sorted(calls)
    ok = sorted(calls) == sorted(exp)
    for site in SITES:
        r, a = SITES[site]
        holder = next(e for e in m.elems if type(e).__name__ == r)
        vals = getattr(holder, a)
        for val in (vals if isinstance(vals, list) else [vals]):
            want = "p0" if expected_key(site, registered) else "x"
            if getattr(val, "name", None) != want:
                ok = False
                obs.setdefault("wrong_targets", []).append((site, getattr(val, "name", None), want))
    return ok, obs


# ---- family 3: RREL string registered under a key vs the same expression in the grammar -------
G3 = """
Model: defs*=D elems*=E;
E: U | V;
D: 'd' name=ID ('{' kids*=D '}')?;
U: 'u' a=%s ('[' l+=%s[','] ']')?;
V: 'v' a=%s;
CFQN[split='::']: ID ('::' ID)*;
DFQN: ID ('.' ID)*;
"""
EXPRS = ["defs.kids", "defs.kids*", "^kids,defs.kids", "defs*.kids"]
M3 = ["d p { d q } d q u p::q [ p::q , q ] v p.q", "d p { d q } d q v p.q u p::q [ q , p::q ]", "d p { d q } v q u q"]
KEYS3 = ["*.*", "U.*", "V.*", "*.a", "*.l", "U.a", "V.a", "U.l"]


def mm3(expr):
    key = ("g3", expr)
    if key not in _MM:
        from textx import metamodel_from_str

        if expr is None:
            g = G3 % ("[D:CFQN]", "[D:CFQN]", "[D:DFQN]")
        else:
            g = G3 % ("[D:CFQN|%s]" % expr, "[D:CFQN|%s]" % expr, "[D:DFQN|%s]" % expr)
        _MM[key] = metamodel_from_str(g)
    return _MM[key]


def outcome3(mm, text):
    try:
        m = mm.model_from_str(text)
    except Exception as e:
        return "%s: %s" % (type(e).__name__, getattr(e, "message", e))

    def path(o):
        out = []
        while hasattr(o, "parent"):
            out.append(o.name)
            o = o.parent
        return ".".join(reversed(out))
    res = []
    for e in m.elems:
        if type(e).__name__ == "U":
            res.append(("U.a", path(e.a)))
            res.append(("U.l", [path(x) for x in e.l]))
        else:
            res.append(("V.a", path(e.a)))
    return res


def run_regstr(expr, mi, mask):
    text = M3[mi]
    want = outcome3(mm3(expr), text)
    mm = mm3(None)
    keys = [k for i, k in enumerate(KEYS3) if mask >> i & 1]
    mm.register_scope_providers({k: expr for k in keys})
    # which sites are covered by the registered keys
    covered = {s: expected_key(s, keys) is not None for s in ("U.a", "U.l", "V.a")}
    got = outcome3(mm, text)
    obs = {"expr": expr, "text": text, "keys": keys, "grammar_variant": want, "registered_variant": got}
    if not all(covered.values()):
        return None, obs  # partially covered: default provider semantics mix in; not judged
    return want == got, obs


def cases():
    for site in SITES:
        for subset in itertools.product((False, True), repeat=4):
            strs = [None] + [i for i in range(4) if subset[i]]
            for sk in strs:
                for rg in (False, True):
                    for wd in (False, True):
                        yield (site, subset, sk, rg, wd)


def work2(cs):
    u = Unit()
    for mask, order in cs:
        with watchdog(10):
            ok, obs = run_multi(mask, order)
        u.case(["multi", mask, order], nontrivial=mask != 0, sample=obs if bin(mask).count("1") == 3 else None)
        u.count("family2-multi-site")
        if not ok:
            u.fail(["multi", mask, order], {"multi": [mask, order]}, what=repr(obs)[:400])
    return u


def work3(cs):
    u = Unit()
    for expr, mi, mask in cs:
        with watchdog(10):
            ok, obs = run_regstr(expr, mi, mask)
        if ok is None:
            u.count("family3-partially-covered (not judged)")
            continue
        u.case(["regstr", expr, mi, mask], nontrivial=True, sample=obs if mask == 5 else None)
        u.count("family3-registered-string-vs-grammar")
        if not ok:
            u.fail(["regstr", expr, mi, mask], {"regstr": [expr, mi, mask]}, what=repr(obs)[:500])
    return u


def work(cs):
    u = Unit()
    for c in cs:
        with watchdog(10):
            ok, obs = run_case(*c)
        u.case(list(c), nontrivial=any(c[1]) or c[3], sample=obs if sum(c[1]) > 1 else None)
        u.count("expected:" + obs["expected"][0])
        if not ok:
            u.fail(list(c), {"case": list(c)}, what="%s registered=%s grammar_rrel=%s expected %s observed %s" % (
                obs["site"], obs["registered"], obs["grammar_rrel"], obs["expected"], obs["observed"]))
    return u


def run(ctx):
    cs = list(cases())
    ctx.pmap(work, [cs[i:i + 40] for i in range(0, len(cs), 40)])
    c2 = [(mask, order) for mask in range(2 ** len(ALLKEYS)) for order in (0, 1)]
    ctx.pmap(work2, [c2[i:i + 64] for i in range(0, len(c2), 64)])
    c3 = [(e, mi, mask) for e in EXPRS for mi in range(len(M3)) for mask in range(1, 2 ** len(KEYS3))]
    ctx.pmap(work3, [c3[i:i + 64] for i in range(0, len(c3), 64)])
    c4 = [(order, alt, subset) for order in (0, 1) for alt in ("x", "y") for subset in itertools.product((False, True), repeat=4)]
    ctx.pmap(work4, [c4[i:i + 16] for i in range(0, len(c4), 16)])
    ctx.pmap(work5, [list(LOADER_MODELS)])
    return {
        "family5": "'+m:defs' written in the grammar vs registered as a string on %d two-file models (with / without a reference that uses it, existing / missing import): same files loaded, same outcome" % len(LOADER_MODELS),
        "family4": "attribute r assigned in two alternatives, one with the RREL 'alts' and one without, in both orders x matched alternative x every subset of the 4 keys",
        "rule": "case = (reference site in {U.a, U.b, U.l(list), V.a}) x (subset of its 4 applicable keys) x (which registered key is an RREL "
                "string, if any) x (RREL in the grammar on that site or not) x (distracting keys of other rule/attribute registered or not); "
                "non-trivial = at least one key registered or grammar RREL",
        "exhaustive": True, "same_in_both_tiers": True,
        "family2": "all four sites in one model (both element orders) x every subset of the 10 keys %s bound to recording callables: calls per site and targets" % ALLKEYS,
        "family3": "RREL strings %s registered under every non-empty subset of %s that covers all sites vs the same expression written in the grammar, "
                   "on models mixing match rules with split='::' and '.': resolved targets must be equal" % (EXPRS, KEYS3),
    }, ["targets are distinguishable: provider of key i returns object p<i>; RREL 'alts' returns alts.x; default returns defs.x or fails 'not unique' when alts.x exists"]


def replay(p):
    if "multi" in p:
        return run_multi(*p["multi"])
    if "loader" in p:
        return run_loader(p["loader"])
    if "twice" in p:
        c = p["twice"]
        return run_twice(c[0], c[1], tuple(c[2]))
    if "regstr" in p:
        ok, obs = run_regstr(*p["regstr"])
        return bool(ok), obs
    c = p["case"]
    return run_case(c[0], tuple(c[1]), c[2], c[3], c[4])
