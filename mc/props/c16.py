"""C16 - loading is independent of the metamodel's history.

E2: explicit-state search over histories.  Every history (sequence of load operations over a pool of metamodel
configurations and inputs, metamodels created lazily and reused, or re-created) up to depth D is executed in a freshly
forked child of a pristine process (fork = exact snapshot of "textX imported, nothing used").  The outcome of every load
(canonical model dump, or error type / message / line / col / file) must equal the outcome of the same (configuration,
input) computed alone in another pristine child.
"""

import itertools
import json
import os

from mc import core
from mc.core import Unit

ID = "C16"
LEVEL = "model_checking"
ENGINE = "E2-explicit-state-histories"
TECHNIQUE = "exhaustive enumeration of load histories, each run in a forked pristine process, compared step by step with single-load baselines from pristine processes"
CLAIM = ("All sequences up to depth D over (configuration in {plain, memoization, user classes, processors, global repository + imports, "
         "decoy grammar with the same rule names}) x (valid, second valid, syntax error, unknown reference, failing processor, file with a broken "
         "import, repaired file) plus explicit re-creation of a metamodel are executed from a pristine process image; every load must give "
         "exactly the result it gives as the first and only load of a pristine process.")
NOTE = ("Trusted: fork as snapshot of process state; canonical dump. Process state outside Python objects (files are rewritten before each load) "
        "is controlled by the harness.")

GRAMMAR = """
Model: imports*=Import items*=Item ('num' n=NUMBER)? ('bt' b=BASETYPE)?;
Import: 'import' importURI=STRING;
Item: Node | Leaf;
Node: 'n' name=ID ('->' up=[Item])? '{' items*=Item '}';
Leaf: 'l' name=ID ('->' up=[Item])? (':' val=Val)?;
Val: /\\d+/;
"""
DECOY = """
Model: items*=Leaf ('num' n=BASETYPE)?;
Leaf: 'l' name=ID (':' val=NUMBER)? ('->' up=[Leaf])?;
Item: Leaf;
"""
CONFIGS = ["plain", "memo", "user", "proc", "grepo", "decoy"]
INPUTS = {
    "valid": "n a -> c { l b -> a : 3 } l c : 5 num 7 bt x",
    "valid2": "l c : 5 -> c num 1.5",
    "syntax": "n a { l b -> }",
    "unknown": "n a { l b -> zz }",
    "procfail": "n a { l boom : 1 }",
    "matchfail": "n a { n b { l c : 999 } }",
}
FILE_INPUTS = ["file-ok", "file-badimport", "file-missingimport"]


def ops(tier):
    out = []
    for c in CONFIGS:
        for i in INPUTS:
            if c == "decoy" and i not in ("valid2", "syntax"):
                continue
            if i in ("procfail", "matchfail") and c not in ("proc", "grepo", "user"):
                continue
            out.append(("load", c, i))
        if c == "grepo":
            for i in FILE_INPUTS:
                out.append(("load", c, i))
    for c in ("plain", "user", "grepo"):
        out.append(("new", c, None))
    return out


class Pool:
    def __init__(self, workdir):
        self.mms = {}
        self.dir = workdir
        self.classes = None

    def make(self, c):
        from textx import metamodel_from_str
        from textx.scoping.providers import PlainNameImportURI

        kw = {}
        g = GRAMMAR
        if c == "memo":
            kw["memoization"] = True
        if c == "decoy":
            g = DECOY
        if c == "user":
            class Leaf:
                """user class with its own attribute protocol: names are normalised to upper case on every assignment"""

                def __init__(self, **k):
                    for a, v in k.items():
                        setattr(self, a, v)

                def __setattr__(self, a, v):
                    object.__setattr__(self, a, v.upper() if a == "name" and isinstance(v, str) else v)
            kw["classes"] = [Leaf]
        if c == "grepo":
            kw["global_repository"] = True
        mm = metamodel_from_str(g, **kw)
        if c in ("proc", "grepo", "user"):
            def p(obj):
                if obj.name in ("boom", "BOOM"):
                    raise ValueError("boom")
            def val(x):
                if x == "999":
                    raise ValueError("bad value")  # fails while the object graph is being built
                return int(x)
            mm.register_obj_processors({"Leaf": p, "Val": val})
            if c == "grepo":
                # a model processor whose effect is visible in the model: it must be applied exactly once per loaded file
                mm.register_model_processor(lambda model, metamodel: setattr(model, "b", str(model.b or "") + "!"))
        if c != "decoy":
            mm.register_scope_providers({"*.*": PlainNameImportURI()})
        self.mms[c] = mm
        return mm

    def get(self, c):
        return self.mms.get(c) or self.make(c)

    def load(self, c, i):
        mm = self.get(c)
        if i in INPUTS:
            return mm.model_from_str(INPUTS[i])
        # every file input has its own file names: with a global repository a repeated load of the SAME file is
        # served from the cache by design (C17), which is not a history dependence
        tag = i.split("-")[1]
        lib = os.path.join(self.dir, "lib_%s.m" % tag)
        main = os.path.join(self.dir, "main_%s.m" % tag)
        with open(main, "w") as f:
            f.write('import "lib_%s.m" l m -> libx' % tag)
        if i == "file-missingimport":
            if os.path.exists(lib):
                os.remove(lib)
        else:
            with open(lib, "w") as f:
                f.write("l libx l" if i == "file-badimport" else "l libx : 2")
        return mm.model_from_file(main)


def dump(m, depth=0):
    if isinstance(m, (str, int, float, bool)) or m is None:
        return repr(m)
    if isinstance(m, list):
        return [dump(x, depth + 1) for x in m]
    cls = type(m)
    attrs = getattr(cls, "_tx_attrs", None)
    names = sorted(attrs) if attrs else sorted(k for k in vars(m) if not k.startswith("_") and k != "parent")
    out = {"cls": cls.__name__}
    for k in names:
        v = getattr(m, k, "<missing>")
        if attrs and not attrs[k].cont and not isinstance(v, (str, int, float, bool, list, type(None))):
            out[k] = "-> " + str(getattr(v, "name", v))
        elif k in ("up",) and not isinstance(v, (str, int, float, bool, list, type(None))):
            out[k] = "-> " + str(getattr(v, "name", v))
        elif depth < 20:
            out[k] = dump(v, depth + 1)
    return out


def step(pool, op):
    kind, c, i = op
    if kind == "new":
        pool.mms.pop(c, None)
        pool.make(c)
        return ["created"]
    try:
        m = pool.load(c, i)
        return ["ok", dump(m)]
    except Exception as e:
        return ["err", type(e).__name__, str(getattr(e, "message", e)).replace(pool.dir, "<dir>"), getattr(e, "line", None), getattr(e, "col", None),
                str(getattr(e, "filename", None)).replace(pool.dir, "<dir>")]


def in_child(fn):
    """run fn() in a forked child, return its JSON-able result"""
    r, w = os.pipe()
    pid = os.fork()
    if pid == 0:
        try:
            os.close(r)
            try:
                res = ["result", fn()]
            except BaseException as e:
                import traceback

                res = ["harness", "".join(traceback.format_exception(type(e), e, e.__traceback__))[-1500:]]
            with os.fdopen(w, "w") as f:
                json.dump(res, f, default=str)
        finally:
            os._exit(0)
    os.close(w)
    with os.fdopen(r) as f:
        data = f.read()
    os.waitpid(pid, 0)
    res = json.loads(data)
    if res[0] == "harness":
        raise core.HarnessError(res[1])
    return res[1]


def run_history(hist, workdir):
    def body():
        pool = Pool(workdir)
        return [step(pool, tuple(op)) for op in hist]
    return in_child(body)


_BASE = {}


def baseline(op, workdir):
    key = tuple(op)
    if key not in _BASE:
        _BASE[key] = run_history([op], workdir)[0]
    return _BASE[key]


def work(arg):
    hists = arg
    u = Unit()
    d = os.path.join(core.rundir(), "c16-%d" % os.getpid())
    os.makedirs(d, exist_ok=True)
    for hist in hists:
        res = run_history(hist, d)
        u.transitions += len(hist)
        bad = None
        for k, (op, r) in enumerate(zip(hist, res)):
            if op[0] == "new":
                continue
            b = baseline(op, d)
            if json.dumps(b, sort_keys=True) != json.dumps(r, sort_keys=True):
                bad = (k, op, b, r)
                break
        u.case([list(map(list, hist))], nontrivial=len(hist) > 1, sample={"history": hist, "results": [r[:2] if r[0] == "err" else r[0] for r in res]} if len(hist) > 1 else None)
        if bad:
            k, op, b, r = bad
            u.fail([list(map(list, hist))], {"history": [list(o) for o in hist]}, sig="%s %s after %s" % (op[1], op[2], [o[1:] for o in hist[:k]][-1:] ),
                   what="history %s: step %d %s gives %s, pristine process gives %s" % ([list(o) for o in hist], k, list(op), json.dumps(r)[:250], json.dumps(b)[:250]))
    return u


def run(ctx):
    D = 2 if ctx.tier == "quick" else 3
    O = ops(ctx.tier)
    # 1. cold baselines: every operation as the first and only operation of a process that has imported textX only
    d0 = os.path.join(core.rundir(), "c16-cold")
    os.makedirs(d0, exist_ok=True)
    cold = {o: run_history([o], d0)[0] for o in O}
    # 2. warm the process (build one throw-away metamodel: fills the cached textX grammar parser) and take the same
    #    baselines again; all deeper histories are forked from this warm image (building the grammar parser in every
    #    child made forks 10x more expensive)
    from textx import metamodel_from_str

    metamodel_from_str("Warm: 'w';")
    for o in O:
        w = run_history([o], d0)[0]
        ctx.evaluations += 1
        ctx.transitions += 2
        if json.dumps(w, sort_keys=True) != json.dumps(cold[o], sort_keys=True):
            ctx.violation(["cold-vs-warm", list(o)], {"history": [list(o)], "cold": True}, sig="cold-vs-warm",
                          what="operation %s: cold process gives %s, after one unrelated metamodel %s" % (list(o), json.dumps(cold[o])[:200], json.dumps(w)[:200]))
        _BASE[tuple(o)] = w
    hists = [h for d in range(1, D + 1) for h in itertools.product(O, repeat=d)]
    if D == 3:
        # depth 3 only for histories that start or end with a failing / file / re-creating operation (the rest is covered at depth 2)
        interesting = lambda o: o[0] == "new" or o[2] in ("syntax", "unknown", "procfail", "matchfail", "file-badimport", "file-missingimport", "file-ok")
        hists = [h for h in hists if len(h) < 3 or (interesting(h[0]) and interesting(h[1]))]
    B = 25
    ctx.pmap(work, [hists[i:i + B] for i in range(0, len(hists), B)])
    ctx.states = ctx.evaluations
    return {
        "rule": "state = history; every history up to depth %d over %d operations (depth 3: only histories whose first two operations are failing, "
                "file-based or re-creating); each history runs in its own forked pristine process; transitions = operations; "
                "non-trivial = history of length >= 2" % (D, len(O)),
        "exhaustive": True, "operations": [list(o) for o in O], "depth": D,
    }, ["the parent process imports textX but never builds a metamodel, so a fork of it is the pristine state"]


def replay(p):
    d = os.path.join(core.rundir(), "c16-replay")
    os.makedirs(d, exist_ok=True)
    hist = [tuple(o) for o in p["history"]]
    res = run_history(hist, d)
    for k, (op, r) in enumerate(zip(hist, res)):
        if op[0] == "new":
            continue
        b = run_history([op], d)[0]
        if json.dumps(b, sort_keys=True) != json.dumps(r, sort_keys=True):
            return False, {"history": p["history"], "step": k, "observed": r, "pristine": b}
    return True, {"history": p["history"], "results": res}
