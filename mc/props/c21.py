"""C21 - autokwd matches keyword-like literals only on word boundaries.

E1: literal shapes {a, ab, a1, _a, e-acute, 1a, a-b, +, 'a.', 'a b'} placed in grammar templates (sequence with ID,
ordered choice of two literals, separator, optional, literal assignment); inputs with and without a word character
glued after each literal; autokwd off and on.
Oracle: (1) implementation(autokwd=True) == RefPEG(autokwd=True) - includes "an identifier-like literal followed by a
word character never matches"; (2) metamorphic clause decided exactly: if in the autokwd=False reference run no
successful identifier-like literal match (also in abandoned branches and predicates) ends in front of a word
character, the implementation's autokwd=True and autokwd=False outcomes must be identical.
"""

import itertools
import json

from mc import refpeg, gramgen, diff, impl
from mc.core import Unit
from mc.props import c01

ID = "C21"
LEVEL = "exploration"
ENGINE = "E1-bounded-exhaustive-inputs"
TECHNIQUE = "bounded-exhaustive enumeration of literal shapes x grammar templates x glued/unglued inputs; differential against RefPEG(autokwd) plus an exactly-evaluated metamorphic relation between autokwd on and off"
CLAIM = ("All ordered pairs of literal shapes (identifier-like, digit-leading, symbol, mixed, with space, non-ASCII letter) in 9 grammar templates "
         "are compiled with autokwd off and on and run on every token string up to 3 tokens over the literals themselves, each literal glued "
         "to a letter / digit / underscore, an identifier and a number, joined by ' ' and by ''. Both configurations must agree with RefPEG, and "
         "whenever no keyword-like literal match ends before a word character the two configurations must give the same outcome.")
NOTE = "Trusted: RefPEG's autokwd switch (identifier-like literal must not be followed by \\w) and its record of every successful literal match."

# "esc:" = the same literal written in the grammar with an escape sequence for its first character ('\\x61b' is 'ab')
SHAPES = ["a", "ab", "a1", "_a", "é", "1a", "a-b", "+", "a.", "a b", "esc:ab", "esc:éa"]
REF, SEQ, ALT = gramgen.REF, gramgen.SEQ, gramgen.ALT
L = lambda s: ("lit", s[4:], "esc") if s.startswith("esc:") else ("lit", s)
A = lambda attr, op, rhs, sep=None: ("asg", attr, op, rhs, sep, False)

TEMPLATES = {
    "K1 x=ID": lambda a, b: SEQ(L(a), A("x", "=", REF("ID"))),
    "x=ID K1": lambda a, b: SEQ(A("x", "=", REF("ID")), L(a)),
    "K1 | K2": lambda a, b: ALT(L(a), L(b)),
    "(K1 | K2) x=ID": lambda a, b: SEQ(ALT(L(a), L(b)), A("x", "=", REF("ID"))),
    "xs+=ID[K1]": lambda a, b: A("xs", "+=", REF("ID"), L(a)),
    "K1? K2": lambda a, b: SEQ(("opt", L(a)), L(b)),
    "k=K1 v=INT": lambda a, b: SEQ(A("k", "=", L(a)), A("v", "=", REF("INT"))),
    "!K1 x=ID K2": lambda a, b: SEQ(("not", L(a)), A("x", "=", REF("ID")), L(b)),
    "ks+=K1 K2*": lambda a, b: SEQ(A("ks", "+=", L(a)), ("star", L(b), None, False)),
    # one literal used both as a value of a list assignment and as a separator (and K2 as a plain match in between)
    "ks+=K1 K2 xs+=ID[K1]": lambda a, b: SEQ(("plus", A("ks", "+=", L(a)), None, False), L(b), A("xs", "+=", REF("ID"), L(a))),
}


def tokens(a, b):
    toks = []
    for k in dict.fromkeys([a, b]):
        k = k[4:] if k.startswith("esc:") else k
        toks += [k, k + "x", k + "1", k + "_"]
    toks += ["x", "7"]
    return list(dict.fromkeys(toks))


def out(mm, text):
    kind, payload, _ = impl.load(mm, text)
    return [kind, payload]


def work(arg):
    tier, items = arg
    u = Unit()
    for tname, a, b in items:
        g = [("M", {}, TEMPLATES[tname](a, b))]
        gtext = refpeg.to_text(g)
        toks = tokens(a, b)
        texts = []
        for t in gramgen.inputs(toks, 3, 400 if tier == "quick" else 1200):
            texts.append(" ".join(t))
            if len(t) > 1:
                texts.append("".join(t))
        texts = list(dict.fromkeys(texts))
        r0 = refpeg.Interp(g, autokwd=False)
        pair = {}
        for cfg in ({"autokwd": False}, {"autokwd": True}):
            interp, mm, err = diff.compile_both(g, cfg)
            if err is not None:
                u.case([gtext, str(cfg)], nontrivial=False)
                u.fail([gtext, str(cfg)], {"grammar": g, "cfg": cfg, "input": None}, sig="compile " + tname, what="%s refused: %s" % (gtext, err))
                break
            pair[cfg["autokwd"]] = (interp, mm)
        if len(pair) < 2:
            continue
        interp_x, mm_x, err_x = diff.compile_both(g, {"autokwd": True, "skipws": False})
        extra = None if err_x is not None else (interp_x, mm_x)
        u.count("grammars")
        for text in texts:
            res = {}
            for flag in (False, True):
                interp, mm = pair[flag]
                agree, r, i = diff.compare(interp, mm, text)
                res[flag] = i
                cid = [gtext, flag, text]
                u.case(cid, nontrivial=(r[0] == "accept"), sample={"grammar": gtext, "autokwd": flag, "input": text, "reference": r} if r[0] == "accept" and flag and len(text) > 2 else None)
                if not agree:
                    u.fail(cid, {"grammar": g, "cfg": {"autokwd": flag}, "input": text}, sig="ref-vs-impl autokwd=%s %s" % (flag, tname),
                           what="%s | autokwd=%s | input=%r | reference=%s | implementation=%s" % (gtext.strip(), flag, text, json.dumps(r)[:160], json.dumps(i)[:160]))
            if extra is not None:
                # autokwd with whitespace skipping switched off (keywords then stand next to each other or to explicit matches)
                agree, r, i = diff.compare(extra[0], extra[1], text)
                cid = [gtext, "autokwd+noskipws", text]
                u.case(cid, nontrivial=(r[0] == "accept"))
                if not agree:
                    u.fail(cid, {"grammar": g, "cfg": {"autokwd": True, "skipws": False}, "input": text}, sig="ref-vs-impl autokwd+noskipws %s" % tname,
                           what="%s | autokwd=True skipws=False | input=%r | reference=%s | implementation=%s" % (gtext.strip(), text, json.dumps(r)[:160], json.dumps(i)[:160]))
            # metamorphic clause
            diff.ref_outcome(r0, text)
            glued = any(e < len(text) and (text[e].isalnum() or text[e] == "_") for e in r0.kw_hits)
            u.count("metamorphic clause applies" if not glued else "keyword glued to a word character")
            if not glued and json.dumps(res[False], sort_keys=True) != json.dumps(res[True], sort_keys=True):
                u.fail([gtext, "meta", text], {"grammar": g, "cfg": {"autokwd": True}, "input": text, "meta": True}, sig="metamorphic " + tname,
                       what="%s | input=%r | no keyword-like literal is followed by a word character, yet autokwd off=%s on=%s" % (
                           gtext.strip(), text, json.dumps(res[False])[:160], json.dumps(res[True])[:160]))
    return u


def run(ctx):
    c01.selfcheck()
    second = SHAPES if ctx.tier == "thorough" else ["ab", "1a", "+", "a b"]
    items = [(t, a, b) for t in TEMPLATES for a in SHAPES for b in second if a != b]
    ctx.pmap(work, [(ctx.tier, items[i:i + 6]) for i in range(0, len(items), 6)])
    return {
        "rule": "case = (template, literal K1, literal K2, autokwd flag, rendered input); K1 over %s, K2 over %s; inputs = all strings up to 3 tokens "
                "over {K, Kx, K1, K_ for both literals, x, 7} joined by ' ' and ''; non-trivial = reference accepts" % (SHAPES, second),
        "exhaustive": True, "grammars": len(items),
    }, ["a word character is [A-Za-z0-9_] or a unicode letter/digit (Python \\w)"]


def replay(p):
    if p.get("meta"):
        g = c01.totuple(p["grammar"])
        gtext = refpeg.to_text(g)
        a = out(impl.make_mm(gtext, {"autokwd": False}), p["input"])
        b = out(impl.make_mm(gtext, {"autokwd": True}), p["input"])
        return json.dumps(a, sort_keys=True) == json.dumps(b, sort_keys=True), {"grammar": gtext, "input": p["input"], "off": a, "on": b}
    return c01.replay(p)
