"""C02 - assignments never lose, duplicate or reorder matched values.

E1 on a dedicated grammar family: the same attribute assigned 2-3 times in every nesting of sequence,
ordered choice, optional, repetition and unordered group (all expression trees with up to 3 leaves and one
enclosing unary operator), inputs forced to contain falsy values (0, "", repeated tokens).
Oracle: RefPEG - multiplicity ("list exactly when more than one value can be collected"), values in input
order, and no 'Multiple assignments' error on accepted input.
"""

import itertools
import json

from mc import refpeg, gramgen, diff
from mc.core import Unit
from mc.props import c01

ID = "C02"
LEVEL = "exploration"
ENGINE = "E1-bounded-exhaustive-inputs"
TECHNIQUE = ("bounded-exhaustive enumeration of multi-assignment grammar shapes x token strings with falsy values; differential execution "
             "against RefPEG's collected-values semantics")
CLAIM = ("Every expression tree with 2-3 leaves from {p=INT, p+=INT, p*=INT, p=STRING, q=INT, 'a'} combined by sequence, ordered choice, "
         "unordered group and an optional/repetition operator on every subtree is compiled and run on every token string up to L tokens over "
         "{0, 7, \"\", a} (+ foreign token); the model must be a list exactly when the reference says more than one value can be collected, "
         "hold exactly the matched values in input order, and accepted input must never raise 'Multiple assignments'.")
NOTE = "Trusted: RefPEG's syntactic 'max values collectable on a path' rule for multiplicity (docs: rule of thumb for multiple assignments)."

L = gramgen.L
REF = gramgen.REF
A = lambda attr, op, rhs: ("asg", attr, op, rhs, None, False)
LEAVES = [A("p", "=", REF("INT")), A("p", "+=", REF("INT")), A("p", "*=", REF("INT")), A("p", "=", REF("STRING")), A("q", "=", REF("INT")), L("a")]


def wrap(e, full):
    yield e
    if not gramgen.nullable(e):
        yield ("opt", e)
        if full:
            yield ("star", e, None, False)
            yield ("plus", e, None, False)


def combos(n, full, leaves):
    """expression trees with n leaves"""
    if n == 1:
        for x in leaves:
            yield x
        return
    for k in range(1, n):
        for left in combos(k, full, leaves):
            for right in combos(n - k, full, leaves):
                for lw in wrap(left, full or n == 2):
                    for rw in wrap(right, full or n == 2):
                        yield ("seq", (lw, rw))
                        if full or n == 2:
                            yield ("ugrp", (lw, rw), None, False)
                if not gramgen.nullable(left) and not gramgen.nullable(right):
                    yield ("alt", (left, right))


def family(tier):
    seen = set()
    full = tier == "thorough"
    leaves = LEAVES if full else [l for l in LEAVES if l != LEAVES[2]]
    for n in (2, 3):
        for e in combos(n, full, leaves):
            if sum(1 for x in refpeg.walk(e) if x[0] == "asg" and x[1] == "p") < 2 and n > 2:
                continue
            for w in (wrap(e, True) if full else [e]):
                if gramgen.valid(w) and repr(w) not in seen:
                    seen.add(repr(w))
                    yield w


ALPHA = ["0", "7", '""', "a", "k"]
CFGS = [("base", {}, [" "], 9), ("noinit", {"auto_init_attributes": False}, [" "], 2)]


def work(arg):
    tier, L_, bodies = arg
    u = Unit()
    for body in bodies:
        g = [("M", {}, body)]
        gtext = refpeg.to_text(g)
        toks = list(gramgen.inputs(ALPHA, L_, 800))
        for cfgname, cfg, joiners, maxtok in CFGS:
            interp, mm, err = diff.compile_both(g, cfg)
            if err is not None:
                u.case([gtext, cfgname], nontrivial=False)
                u.fail([gtext, cfgname], {"grammar": g, "cfg": cfg, "input": None}, sig="compile", what="%s refused: %s" % (gtext, err))
                continue
            many = {a: i["many"] for a, i in interp.st.attrs["M"].items()} if "M" in interp.st.attrs else {}
            u.count("grammars")
            for t in toks:
                if len(t) > maxtok:
                    continue
                text = " ".join(t)
                agree, r, i = diff.compare(interp, mm, text)
                cid = [gtext, cfgname, text]
                u.case(cid, nontrivial=(r[0] == "accept"), sample={"grammar": gtext, "input": text, "reference": r, "many": many} if r[0] == "accept" and len(t) > 2 else None)
                u.count("ref:" + r[0])
                if not agree:
                    sig = c01.signature(g, r, i)
                    if i[0] == "semantic" and "Multiple assignments" in str(i[1]):
                        sig = "MULTIPLE-ASSIGNMENTS " + sig
                    u.fail(cid, {"grammar": g, "cfg": cfg, "input": text}, key=diff.attribute(g, cfg, text, i), sig=sig,
                           what="%s | input=%r | reference=%s | implementation=%s" % (gtext.strip(), text, json.dumps(r)[:200], json.dumps(i)[:200]))
    return u


# ---- rule names: the values of an assignment must not depend on how the rule on its right-hand side is called
ODD_NAMES = ["sep", "eolterm", "skipws", "ws", "split", "Sep", "plain", "optional", "list", "Item", "type", "object", "str", "int", "dict", "Postponed", "Model"]


def names_family():
    A = gramgen.A_
    L, RE, REF, SEQ = gramgen.L, gramgen.RE, gramgen.REF, gramgen.SEQ
    for name in ODD_NAMES:
        for kind, rule in (("match", (name, {}, RE("[xy]+"))), ("common", (name, {}, SEQ(L("c"), A("v", "=", REF("INT")))))):
            for body in (A("p", "+=", REF(name)), A("p", "*=", REF(name), L(",")), SEQ(A("p", "+=", REF(name), L(",")), L("k"), A("q", "=", REF(name))),
                         SEQ(A("p", "=", REF(name)), A("p", "=", REF(name))), ("plus", A("p", "=", REF(name)), L(","), False)):
                yield [("M", {}, body), rule], (["x", "xy", ",", "k"] if kind == "match" else ["c", "7", "0", ",", "k"])


def work_names(arg):
    u = Unit()
    for g, alpha in arg:
        texts = [" ".join(t) for t in gramgen.inputs(alpha, 5 if "c" in alpha else 4, 700)]
        c01.run_texts(g, {}, texts, u, "rule-names", label="rule-names")
    return u


# ---- '?=' together with another assignment to the same attribute: the compiler documents this as an error
#      ('Cannot use "?=" operator on multiple assignments'); it must be one in every order and nesting, never a grammar
#      that compiles and then loses values or crashes while loading
def boolmix_family():
    for other in ("s=INT", "s+=INT", "s*=INT", "s='k'", "s+=R"):
        for tmpl in ("M: s?='b' {o}; R: 'r' n=INT;", "M: {o} s?='b'; R: 'r' n=INT;", "M: s?='b' ('+' {o})*; R: 'r' n=INT;", "M: ({o})? s?='b'; R: 'r' n=INT;",
                     "M: s?='b' | {o}; R: 'r' n=INT;", "M: ({o} | 'x') s?='b'; R: 'r' n=INT;", "M: (s?='b' {o})#; R: 'r' n=INT;"):
            yield tmpl.format(o=other)


# (e) '#' written around ONE plain assignment: either the compiler refuses it (as it refuses '#' on any other single element), or every value
#     given in the input arrives in the model - never a grammar that compiles and drops the assignment
UGROUP1 = [("M: 'b' (a=INT)# 'e';", "b 3 e", 3), ("M: 'b' a=INT# 'e';", "b 3 e", 3), ("M: 'b' ((a=INT))# 'e';", "b 3 e", 3), ("M: 'b' (a=INT)#[','] 'e';", "b 3 e", 3),
           ("M: 'b' (r=[M])# 'e' name=ID;", "b x e x", "x"), ("M: 'b' (s=S)# 'e'; S: 's' n=INT;", "b s 4 e", 4), ("M: 'b' (a=INT)# a=INT 'e';", "b 3 4 e", [3, 4])]


def work_ugroup1(arg):
    from textx import metamodel_from_str
    from textx.exceptions import TextXError

    u = Unit()
    for gtext, text, want in arg:
        cid = ["ugroup-single-assignment", gtext]
        try:
            mm = metamodel_from_str(gtext)
        except TextXError as e:
            outcome = "refused: " + str(e.message)[:60]
            ok = True
        except Exception as e:
            outcome, ok = "%s: %s" % (type(e).__name__, str(e)[:80]), False
        else:
            try:
                m = mm.model_from_str(text)
                got = getattr(m, "a", None) if "a=" in gtext else (getattr(m.r, "name", None) if "r=" in gtext else getattr(m.s, "n", None))
                outcome, ok = "loaded %r" % (got,), got == want
            except Exception as e:
                outcome, ok = "load: %s: %s" % (type(e).__name__, str(e)[:80]), False
        u.case(cid, nontrivial=True, sample={"grammar": gtext, "input": text, "outcome": outcome})
        u.count("ugroup-single-assignment " + outcome.split(":")[0].split(" ")[0])
        if not ok:
            u.fail(cid, {"ugroup1": [gtext, text, want]}, sig="ugroup single assignment", what="%s | input %r | expected refusal or value %r | %s" % (gtext, text, want, outcome))
    return u


def work_boolmix(arg):
    from textx import metamodel_from_str
    from textx.exceptions import TextXError

    u = Unit()
    for gtext in arg:
        cid = ["boolmix", gtext]
        try:
            mm = metamodel_from_str(gtext)
            outcome = "compiled"
        except TextXError as e:
            outcome = "refused: " + str(e.message)[:60]
        except Exception as e:
            outcome = "%s: %s" % (type(e).__name__, str(e)[:80])
        u.case(cid, nontrivial=True, sample={"grammar": gtext, "outcome": outcome})
        u.count("boolmix " + outcome.split(":")[0])
        if not outcome.startswith("refused"):
            extra = ""
            if outcome == "compiled":
                for text in ("b 7", "7 b", "b + 7", "b k", "b r 1", "7", "b"):
                    try:
                        m = mm.model_from_str(text)
                        extra += " | %r -> s=%r" % (text, m.s)
                    except Exception as e:
                        extra += " | %r -> %s" % (text, type(e).__name__)
            u.fail(cid, {"boolmix": gtext}, sig="boolmix " + outcome.split(":")[0], what="%s %s%s" % (gtext, outcome, extra[:300]))
    return u


def replay_boolmix(gtext):
    u = work_boolmix([gtext])
    return not u.fails, {"grammar": gtext, "failures": [f["what"] for f in u.fails]}


def run(ctx):
    c01.selfcheck()
    bm = list(boolmix_family())
    ctx.pmap(work_boolmix, [bm[i:i + 7] for i in range(0, len(bm), 7)])
    ctx.pmap(work_ugroup1, [UGROUP1])
    nf = list(names_family())
    ctx.pmap(work_names, [nf[i:i + 5] for i in range(0, len(nf), 5)])
    bodies = list(family(ctx.tier))
    L_ = 3
    B = 30
    ctx.pmap(work, [(ctx.tier, L_, bodies[i:i + B]) for i in range(0, len(bodies), B)])
    return {
        "rule": "case = (grammar, config, input); grammars = all expression trees with 2-3 leaves of %d leaf kinds under seq / ordered choice / "
                "unordered group with ?,*,+ on subtrees (thorough: also on the whole body) that assign p at least twice; inputs = all strings "
                "up to %d tokens over %s; non-trivial = reference accepts; plus a family in which the rule on the right-hand side of list and repeated "
                "assignments carries each of the names %s" % (len(LEAVES), L_, ALPHA, ODD_NAMES),
        "exhaustive": True, "grammars": len(bodies),
    }, ["multiplicity rule: an attribute is 'many' iff some path through the rule body can execute two assignments to it (repetition counts as many)"]


def replay(p):
    if "ugroup1" in p:
        u = work_ugroup1([tuple(p["ugroup1"])])
        return not u.fails, {"failures": [f["what"] for f in u.fails]}
    if "boolmix" in p:
        return replay_boolmix(p["boolmix"])
    return c01.replay(p)
