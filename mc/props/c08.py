"""C08 - reference lists keep the textual order of the references, under every postponement schedule.

E3 (round mode): for every list shape and every vector k in {0..K}^n ("reference i answers
Postponed on its first k_i calls") the real resolver is run with a wrapped real provider.
"""

import itertools

from mc.core import Unit, watchdog
from mc.sched import PlainSched, HorizonExceeded

ID = "C08"
LEVEL = "model_checking"
ENGINE = "E3-environment-answer-schedules"
TECHNIQUE = "exhaustive enumeration of scope-provider answer schedules (Postponed vectors, deviation-ordered) x list shapes on the real resolver"
CLAIM = ("For every reference-list shape up to n references (repeated targets, two lists in one object, lists in two objects) and every "
         "postponement vector in {0..K}^n, with PlainName, FQN and RREL providers, the real resolution loop is executed and the resolved "
         "lists must equal the targets in textual order. All schedules within the bound are covered, ordered by number of postponements.")
NOTE = ("Trusted: the wrapper provider (counts calls per reference position). Schedules in which some round resolves nothing end the "
        "resolver's loop by design and are not judged (counted separately).")

GRAMMAR = """
Model: defs+=Def users*=User pairs*=Pair;
Def: 'def' name=ID;
User: 'user' name=ID ':' xs+=[Def][','] (';' ys+=[Def][','])?;
Pair: head=Head '|' xs+=[Def][','] '.';
Head: xs+=[Def]['&'];
"""
# Pair / Head: a container and its first child start at the SAME offset and both own a reference list of the same attribute name

_MM = {}


def mm_for(provider):
    if provider not in _MM:
        from textx import metamodel_from_str

        _MM[provider] = metamodel_from_str(GRAMMAR)
    return _MM[provider]


def rgs(n):
    """restricted growth strings: all target patterns of length n up to renaming"""
    def rec(prefix, mx):
        if len(prefix) == n:
            yield tuple(prefix)
            return
        for v in range(mx + 2):
            yield from rec(prefix + [v], max(mx, v))
    yield from rec([], -1)


def shapes(N):
    """shape = list of users; user = (xs pattern, ys pattern or None); patterns index defs"""
    for n in range(1, N + 1):
        for p in rgs(n):
            yield [(p, None)]
    for n1 in range(1, N):
        for n2 in range(1, N - n1 + 1):
            for p in rgs(n1 + n2):
                if len(set(p)) in (1, n1 + n2) or p == tuple(i % 2 for i in range(n1 + n2)):
                    yield [(p[:n1], p[n1:])]  # two lists in one object
                    yield [(p[:n1], None), (p[n1:], None)]  # lists in two objects
                    yield [("pair", p[:n1], p[n1:])]  # lists of the same name in a container and in its first child (same start offset)
    return


def render(shape):
    names = "abcdefgh"
    used = sorted({t for u in shape for l in u if l and l != "pair" for t in l})
    text = " ".join("def %s" % names[t] for t in used)
    refpos = []  # (position, user idx, attr, target name)
    for ui, u_ in enumerate(shape):
        if u_[0] == "pair":
            text += " "
            for i, t in enumerate(u_[1]):
                if i:
                    text += " & "
                refpos.append((len(text), ui, "head.xs", names[t]))
                text += names[t]
            text += " | "
            for i, t in enumerate(u_[2]):
                if i:
                    text += " , "
                refpos.append((len(text), ui, "xs", names[t]))
                text += names[t]
            text += " ."
            continue
        xs, ys = u_
        text += " user u%d : " % ui
        for i, t in enumerate(xs):
            if i:
                text += " , "
            refpos.append((len(text), ui, "xs", names[t]))
            text += names[t]
        if ys:
            text += " ; "
            for i, t in enumerate(ys):
                if i:
                    text += " , "
                refpos.append((len(text), ui, "ys", names[t]))
                text += names[t]
    return text, refpos


def make_provider(kind):
    from textx.scoping.providers import PlainName, FQN
    from textx.scoping.rrel import create_rrel_scope_provider

    if kind == "plain":
        return PlainName()
    if kind == "fqn":
        return FQN()
    return create_rrel_scope_provider("defs")


def run_case(shape, vec, kind):
    from textx.exceptions import TextXError

    text, refpos = render(shape)
    idx = {p: i for i, (p, _, _, _) in enumerate(refpos)}
    calls = {}

    def decide(obj, attr, obj_ref):
        i = idx[obj_ref.position]
        c = calls.get(i, 0)
        calls[i] = c + 1
        return c < vec[i]

    mm = mm_for(kind)
    prov = PlainSched(make_provider(kind), decide, horizon=(max(vec) + 3) * len(vec) + 10)
    mm.register_scope_providers({"*.*": prov})
    gapless = set(range(max(vec) + 1)) == set(vec)
    obs = {"text": text, "vec": list(vec), "provider": kind, "gapless": gapless}
    try:
        m = mm.model_from_str(text)
    except HorizonExceeded:
        obs["error"] = "resolver exceeded the provider-call horizon (non-termination)"
        return False, obs
    except TextXError as e:
        obs["error"] = "%s: %s" % (type(e).__name__, e.message)
        return (not gapless), obs  # a round that resolves nothing ends the loop: not judged here
    except Exception as e:
        obs["error"] = "%s: %s" % (type(e).__name__, e)
        return False, obs
    expected, got = [], []
    defs = {d.name: d for d in m.defs}
    holders = [(ui, u, attr) for ui, u in enumerate(m.users) for attr in ("xs", "ys")]
    holders += [(ui, u, attr) for ui, u in enumerate(m.pairs) for attr in ("head.xs", "xs")]
    for ui, u, attr in holders:
        if True:
            exp = [t for (_, uj, a, t) in refpos if uj == ui and a == attr]
            val = getattr(u.head, "xs") if attr == "head.xs" else getattr(u, attr)
            expected.append(exp)
            got.append([getattr(v, "name", repr(v)) for v in val])
            if len(val) == len(exp) and any(v is not defs[t] for v, t in zip(val, exp)):
                got[-1].append("<identity differs>")
    obs["expected"] = expected
    obs["got"] = got
    return expected == got, obs


def work(arg):
    shape, K, kinds = arg
    u = Unit()
    n = sum(len(l) for us in shape for l in us if l and l != "pair")
    vecs = sorted(itertools.product(range(K + 1), repeat=n), key=lambda v: (sum(v), v))
    for kind in kinds:
        for vec in vecs:
            cid = [shape, list(vec), kind]
            with watchdog(10):
                ok, obs = run_case(shape, vec, kind)
            u.transitions += sum(vec) + n
            u.case(cid, nontrivial=(sum(vec) > 0 and obs.get("gapless")), sample=obs if sum(vec) > 1 else None)
            u.count("gapless" if obs["gapless"] else "gap (not judged)")
            u.count("postponements=%d" % sum(vec))
            if not ok:
                key = None
                u.fail(cid, {"shape": shape, "vec": list(vec), "kind": kind},
                       key=key, what="%s vec=%s %s: expected %s got %s %s" % (obs["text"], list(vec), kind, obs.get("expected"), obs.get("got"), obs.get("error", "")))
    u.states = len(vecs) * len(kinds)
    return u


def run(ctx):
    N, K = (4, 2) if ctx.tier == "quick" else (5, 3)
    kinds = ["plain", "fqn", "rrel"]
    units = [(s, K, kinds) for s in shapes(N)]
    ctx.pmap(work, units)
    return {
        "rule": "states = (shape, provider, postponement vector) schedules; transitions = provider calls; "
                "non-trivial = schedule with >=1 postponement in which every round resolves something",
        "exhaustive": True,
        "max_refs": N, "max_postponements_per_ref": K, "shapes": len(units), "providers": kinds,
    }, ["reference identity is taken from ObjCrossRef.position handed to the provider"]


def replay(p):
    return run_case([tuple(tuple(l) if l is not None else None for l in u) for u in p["shape"]], tuple(p["vec"]), p["kind"])
