"""C03 - rule kinds determine what objects a model contains.

E1: all grammars made of n attribute-less rules X0..Xn-1 whose bodies are single items or two-way ordered
choices over {common / match leaves, forward references, literal-guarded back references (cycles), pairs
'match common', 'common match', 'common common', 'match match'}, every accepted input up to L tokens.
Oracle (RefPEG): rule kinds as least fixpoint; model dump (classes are common rules only, abstract result =
first non-match reference else concatenated text, match rules yield Python values); textx_isinstance for
every (object, rule) pair = reachability through abstract alternatives.
"""

import itertools
import json

from mc import refpeg, gramgen, diff, impl
from mc.core import watchdog as core_watchdog, CaseTimeout
from mc.core import Unit
from mc.props import c01

ID = "C03"
LEVEL = "exploration"
ENGINE = "E1-bounded-exhaustive-inputs"
TECHNIQUE = ("bounded-exhaustive enumeration of rule-reference graphs (chains, guarded cycles, mixed alternatives) x inputs; differential "
             "against RefPEG rule-kind fixpoint, abstract-result rule and an inheritance-reachability reference for textx_isinstance")
CLAIM = ("Every grammar of n attribute-less rules over the item alphabet (all ordered pairs of items as two-way choices, all rule orders by "
         "construction) is compiled; rule kinds (_tx_type), the model produced for every token string up to L tokens, the class of every "
         "object and textx_isinstance(obj, rule) for every object/rule pair including OBJECT must equal the reference.")
NOTE = "Trusted: RefPEG kinds fixpoint and the inheritance reference (first non-match reference per alternative). Replacing object processors are out of scope here (C13)."

L = gramgen.L
REF = gramgen.REF
SEQ = gramgen.SEQ
ALT = gramgen.ALT

LEAFRULES = {
    "R": ("R", {}, SEQ(L("r"), ("asg", "n", "=", REF("INT"), None, False))),
    "S": ("S", {}, SEQ(L("s"), ("asg", "k", "=", REF("ID"), None, False))),
    "V": ("V", {}, ALT(REF("INT"), L("v"))),
    "T": ("T", {}, SEQ(L("m"), L("n"))),
}


def items(i, n, tier):
    small = tier == "small"  # n=3: the reduced alphabet (no second common / multi-token leaves, no 'X rule then common rule' items)
    out = [REF("R"), REF("V"), REF("INT"), L("a")]
    if tier == "thorough":
        out += [REF("S"), REF("T")]
    for j in range(i + 1, n):
        out.append(REF("X%d" % j))
    for j in range(0, i + 1):
        out.append(SEQ(L("("), REF("X%d" % j), L(")")))
    out += [SEQ(REF("V"), REF("R")), SEQ(REF("T"), REF("V"))]
    if not small:
        # predicates consume nothing and yield nothing: the alternative stands for the rule AFTER the predicate
        out += [SEQ(("not", REF("R")), REF("S")), SEQ(("and", REF("S")), REF("S"))]
        # optional, repeated and suppressed references in front of the reference that yields the result
        out += [SEQ(("opt", REF("R")), REF("S")), SEQ(("star", REF("R"), None, False), REF("S")), SEQ(("sup", REF("R")), REF("S"))]
        # a group in front: one of its alternatives yields no object, so the reference after the group can be the result as well / every
        # alternative yields an object, so it cannot
        out += [SEQ(ALT(L("a"), REF("R")), REF("S")), SEQ(ALT(REF("R"), REF("S")), REF("R"))]
        # an unordered group: whichever element comes first in the INPUT yields the result
        out += [("ugrp", (REF("R"), REF("S")), None, False), ("ugrp", (L("a"), REF("S")), None, False)]
    if small:
        if i == n - 1:
            # only in the last rule: a guarded reference back to an earlier rule followed by a common rule
            for j in range(0, i):
                out.append(SEQ(L("("), REF("X%d" % j), L(")"), REF("R")))
        return out
    # a reference to another X rule (its kind may still be unknown when this rule is first analysed) followed by a common rule
    for leaf in (["R", "S"] if tier == "thorough" else ["R"]):
        for j in range(i + 1, n):
            out.append(SEQ(REF("X%d" % j), REF(leaf)))
        for j in range(0, i + 1):
            out.append(SEQ(L("("), REF("X%d" % j), L(")"), REF(leaf)))
    if tier == "thorough":
        out += [SEQ(REF("R"), REF("V")), SEQ(REF("R"), REF("S"))]
    return out


def rule_bodies(i, n, tier):
    its = items(i, n, tier)
    for x in its:
        if x[0] != "lit":
            yield x
    for x, y in itertools.permutations(its, 2):
        yield ALT(x, y)


def chain_slice():
    """quick-tier slice of the 3-rule space: X0 and X1 are two-way choices containing the forward reference to the next rule
    (a chain X0 -> X1 -> X2) and X2 contains 'guarded back reference followed by a common rule'"""
    def with_fwd(i):
        return [b for b in rule_bodies(i, 3, "small") if b[0] == "alt" and ("ref", "X%d" % (i + 1)) in b[1]]

    def with_back(b):
        return any(x[0] == "seq" and len(x[1]) == 4 for x in refpeg.walk(b))
    return [with_fwd(0), with_fwd(1), [b for b in rule_bodies(2, 3, "small") if with_back(b)]]


def grammars(n, tier, bodies_per_rule=None):
    for bodies in itertools.product(*(bodies_per_rule or [list(rule_bodies(i, n, tier)) for i in range(n)])):
        rules = [("X%d" % i, {}, b) for i, b in enumerate(bodies)]
        # every Xi must be reachable from X0
        reach, todo = {"X0"}, ["X0"]
        byname = {r[0]: r for r in rules}
        while todo:
            cur = todo.pop()
            for x in refpeg.walk(byname[cur][2]):
                if x[0] == "ref" and x[1] in byname and x[1] not in reach:
                    reach.add(x[1])
                    todo.append(x[1])
        if len(reach) != n:
            continue
        need = []
        for r in rules:
            for x in refpeg.walk(r[2]):
                if x[0] == "ref" and x[1] in LEAFRULES and x[1] not in need:
                    need.append(x[1])
        yield rules + [LEAFRULES[k] for k in need]


def inh(st, e):
    """classes an abstract rule with body e stands for (first non-match reference per alternative)"""
    k = e[0]
    if k == "ref":
        return [e[1]] if e[1] in st.rules and st.kind_of(e[1]) != "match" else []
    if k == "alt":
        out = []
        for x in e[1]:
            for c in inh(st, x):
                if c not in out:
                    out.append(c)
        return out
    if k == "seq":
        out = []
        for x in e[1]:
            for c in inh(st, x):
                if c not in out:
                    out.append(c)
            if always(st, x):
                break  # this element yields the result whenever the alternative matches; what follows cannot be the result
        return out
    if k in ("opt", "star", "plus"):
        return inh(st, e[1])
    if k == "ugrp":
        out = []
        for x in e[1]:  # any element may come first
            for c in inh(st, x):
                if c not in out:
                    out.append(c)
        return out
    return []  # predicates and suppressed matches yield nothing


def always(st, e):
    """does every way of matching e yield an object (so that nothing after it in a sequence can be the result)?"""
    k = e[0]
    if k == "ref":
        return e[1] in st.rules and st.kind_of(e[1]) != "match"
    if k == "alt":
        return all(always(st, x) for x in e[1])
    if k == "seq":
        return any(always(st, x) for x in e[1])
    if k == "plus":
        return always(st, e[1])
    if k == "ugrp":
        return any(always(st, x) for x in e[1])  # every element is matched, in some order
    return False  # optional / repeated-from-zero elements may be absent; literals, predicates and suppressed matches yield nothing


def conforms(st, cls, rule):
    if rule == "OBJECT" or rule == cls:
        return True
    if rule in st.rules and st.kind_of(rule) == "abstract":
        seen = set()

        def rec(r):
            if r in seen:
                return False
            seen.add(r)
            for c in inh(st, st.rules[r][2]):
                if c == cls or (st.kind_of(c) == "abstract" and rec(c)):
                    return True
            return False
        return rec(rule)
    return False


def objects(v, out):
    if hasattr(type(v), "_tx_attrs") and not isinstance(v, (str, int, float, bool)):
        out.append(v)
        for a in type(v)._tx_attrs:
            objects(getattr(v, a), out)
    elif isinstance(v, list):
        for x in v:
            objects(x, out)
    return out


def check_grammar(g, L_, u, cap):
    from textx import textx_isinstance

    gtext = refpeg.to_text(g)
    interp, mm, err = diff.compile_both(g, {})
    if err is not None:
        u.case([gtext], nontrivial=False)
        u.fail([gtext], {"grammar": g, "cfg": {}, "input": None}, sig="compile:" + err[:50], what="%s refused: %s" % (gtext.replace("\n", " "), err))
        return
    st = interp.st
    kinds = {r[0]: st.kind_of(r[0]) for r in g}
    ikinds = {r[0]: mm[r[0]]._tx_type for r in g}
    u.case([gtext, "kinds"], nontrivial=any(v == "abstract" for v in kinds.values()))
    u.count("grammars")
    if kinds != ikinds:
        u.fail([gtext, "kinds"], {"grammar": g, "cfg": {}, "input": None, "check": "kinds"}, sig="kinds",
               what="%s | rule kinds reference=%s implementation=%s" % (gtext.replace("\n", " "), kinds, ikinds))
    alpha = gramgen.alphabet(g, foreign=False)
    accepted = []
    for t in gramgen.inputs(alpha, L_, cap):
        text = " ".join(t)
        r = diff.ref_outcome(interp, text)
        if r[0] == "accept" and len(accepted) < 12:
            accepted.append(text)
        kind, payload, model = impl.load(mm, text)
        i = (kind, payload)
        cid = [gtext, text]
        agree = (i[0] == "reject") if r[0] == "reject" else (i[0] == "accept" and json.dumps(i[1], sort_keys=True) == json.dumps(r[1], sort_keys=True))
        u.case(cid, nontrivial=r[0] == "accept", sample={"grammar": gtext, "kinds": kinds, "input": text, "reference": r} if r[0] == "accept" and len(t) > 1 else None)
        if not agree:
            u.fail(cid, {"grammar": g, "cfg": {}, "input": text}, key=diff.attribute(g, {}, text, i), sig="model " + str(sorted(kinds.values())) + " ref=%s impl=%s" % (r[0], i[0]),
                   what="%s | kinds=%s | input=%r | reference=%s | implementation=%s" % (gtext.replace("\n", " "), kinds, text, json.dumps(r)[:160], json.dumps(i)[:160]))
            continue
        if kind == "accept":
            for o in objects(model, []):
                cls = type(o).__name__
                if kinds.get(cls) != "common":
                    u.fail(cid + ["class"], {"grammar": g, "cfg": {}, "input": text}, sig="non-common class instantiated",
                           what="%s | input=%r | object of class %s (%s rule)" % (gtext.replace("\n", " "), text, cls, kinds.get(cls)))
                for rule in list(kinds) + ["OBJECT", "INT"]:
                    want = conforms(st, cls, rule)
                    try:
                        got = bool(textx_isinstance(o, mm[rule]))
                    except RecursionError:
                        got = "RecursionError"
                    except Exception as e:
                        got = "%s: %s" % (type(e).__name__, e)
                    u.count("isinstance checks")
                    if want != got:
                        u.fail(cid + ["isinstance", cls, rule], {"grammar": g, "cfg": {}, "input": text, "check": "isinstance"}, sig="isinstance %s" % want,
                               what="%s | input=%r | textx_isinstance(%s object, %s) reference=%s implementation=%s" % (gtext.replace("\n", " "), text, cls, rule, want, got))
    if len(g) <= 3 and any(v == "abstract" for v in kinds.values()) and accepted:
        check_user_classes(g, u, st, kinds, accepted)


def check_user_classes(g, u, st, kinds, inputs):
    """the same grammar with a user class for EVERY common and abstract rule (callable class provider): the class of each object and the
    textx_isinstance table must be what they are with generated classes"""
    from textx import metamodel_from_str, textx_isinstance

    gtext = refpeg.to_text(g)
    made = {}

    def provider(name):
        if kinds.get(name) in ("common", "abstract"):
            made[name] = type(name, (), {"__init__": lambda self, **kw: self.__dict__.update(kw)})
            return made[name]
        return None
    try:
        with core_watchdog(20):
            mmu = metamodel_from_str(gtext, classes=provider)
    except CaseTimeout:
        u.fail([gtext, "user-classes", "compile"], {"grammar": g, "cfg": {}, "input": None, "check": "user-classes"}, sig="user classes compile hang",
               what="%s with a user class for every rule: no meta-model within 20 s CPU" % gtext.replace("\n", " "))
        return
    except Exception as e:
        u.fail([gtext, "user-classes", "compile"], {"grammar": g, "cfg": {}, "input": None, "check": "user-classes"}, sig="user classes compile",
               what="%s with a user class for every rule: %s: %s" % (gtext.replace("\n", " "), type(e).__name__, str(e)[:120]))
        return
    for text in inputs:
        kind, payload, model = impl.load(mmu, text)
        u.case([gtext, "user-classes", text], nontrivial=True)
        if kind != "accept":
            u.fail([gtext, "user-classes", text], {"grammar": g, "cfg": {}, "input": text, "check": "user-classes"}, sig="user classes reject",
                   what="%s | input=%r accepted with generated classes, with user classes: %s %s" % (gtext.replace("\n", " "), text, kind, str(payload)[:100]))
            continue
        for o in objects(model, []):
            cls = type(o).__name__
            if type(o) is not made.get(cls):
                u.fail([gtext, "user-classes", text, "class"], {"grammar": g, "cfg": {}, "input": text, "check": "user-classes"}, sig="user classes: object class",
                       what="%s | input=%r | object of class %r is not an instance of the supplied user class" % (gtext.replace("\n", " "), text, cls))
                continue
            for rule in kinds:
                want = conforms(st, cls, rule)
                try:
                    got = bool(textx_isinstance(o, mmu[rule]))
                except Exception as e:
                    got = "%s: %s" % (type(e).__name__, e)
                u.count("isinstance checks (user classes)")
                if want != got:
                    u.fail([gtext, "user-classes", text, cls, rule], {"grammar": g, "cfg": {}, "input": text, "check": "user-classes"}, sig="user classes isinstance %s" % want,
                           what="%s | user class for every rule | input=%r | textx_isinstance(%s object, %s) reference=%s implementation=%s" % (
                               gtext.replace("\n", " "), text, cls, rule, want, got))


def work(arg):
    tier, L_, cap, gs = arg
    u = Unit()
    for g in gs:
        check_grammar(g, L_, u, cap)
    return u


# ---- grammar-import family: abstract rules of the SAME NAME in the importing and the imported grammar -----------------
IMP_FILES = {
    "main": "import lib\nModel: s=Shape;\nShape: Figure | Sq;\nSq: 'sq' n=INT;\n",
    "lib": "Figure: Shape | Tri;\nShape: Dot | Line;\nDot: 'dot' x=INT;\nLine: 'line' y=INT;\nTri: 'tri' z=INT;\n",
}
# what each abstract rule stands for (first non-match reference of every alternative), by fully qualified name
IMP_INH = {"main.Shape": ["lib.Figure", "main.Sq"], "lib.Figure": ["lib.Shape", "lib.Tri"], "lib.Shape": ["lib.Dot", "lib.Line"]}
IMP_INPUTS = {"dot 1": "lib.Dot", "line 2": "lib.Line", "tri 3": "lib.Tri", "sq 4": "main.Sq"}


# an abstract rule named like a rule of the imported grammar and standing for it through an alias of that grammar
ALIAS_FILES = {"main": "import lib\nModel: s=Sum;\nSum: Expression;\n", "lib": "Expression: Sum | Neg;\nSum: 'sum' name=ID;\nNeg: 'neg' name=ID;\n"}
ALIAS_INH = {"main.Sum": ["lib.Expression"], "lib.Expression": ["lib.Sum", "lib.Neg"]}
ALIAS_INPUTS = {"sum x": "lib.Sum", "neg y": "lib.Neg"}
# the same with a plain alias (a single reference) in the imported grammar
ALIAS1_FILES = {"main": "import lib\nModel: s=Sum;\nSum: Expression;\n", "lib": "Expression: Sum;\nSum: 'sum' name=ID;\n"}
ALIAS1_INH = {"main.Sum": ["lib.Expression"], "lib.Expression": ["lib.Sum"]}
ALIAS1_INPUTS = {"sum x": "lib.Sum"}
IMP_SCENARIOS = {"same-name": None, "alias": (ALIAS_FILES, ALIAS_INH, ALIAS_INPUTS), "single-alias": (ALIAS1_FILES, ALIAS1_INH, ALIAS1_INPUTS)}


def work_imports(arg):
    u = Unit()
    for name in ([arg] if arg else IMP_SCENARIOS):
        sc = IMP_SCENARIOS[name] or (IMP_FILES, IMP_INH, IMP_INPUTS)
        _work_imports(u, name, *sc)
    return u


def _work_imports(u, scenario, IMP_FILES, IMP_INH, IMP_INPUTS):
    import os

    from mc import core
    from textx import metamodel_from_file, textx_isinstance

    d = os.path.join(core.rundir(), "c03imp-%d-%s" % (os.getpid(), scenario))
    os.makedirs(d, exist_ok=True)
    for fn, text in IMP_FILES.items():
        with open(os.path.join(d, fn + ".tx"), "w") as f:
            f.write(text)
    try:
        mm = metamodel_from_file(os.path.join(d, "main.tx"))
    except Exception as e:
        u.case(["imports", scenario, "compile"], nontrivial=True)
        u.fail(["imports", scenario, "compile"], {"imports": scenario}, sig="imports compile " + scenario, what="grammar files %s: %s: %s" % (IMP_FILES, type(e).__name__, str(e)[:200]))
        return u

    def reach(rule, cls, seen=()):
        if rule == cls:
            return True
        return any(reach(x, cls, seen + (rule,)) for x in IMP_INH.get(rule, []) if x not in seen)
    rules = sorted(set(IMP_INH) | {x for v in IMP_INH.values() for x in v})
    for text, cls in IMP_INPUTS.items():
        m = mm.model_from_str(text)
        got_cls = type(m.s)._tx_fqn
        u.case(["imports", scenario, text], nontrivial=True, sample={"scenario": scenario, "input": text, "class": got_cls})
        if got_cls != cls:
            u.fail(["imports", scenario, text], {"imports": scenario}, sig="imports class", what="input %r yields %s, expected %s" % (text, got_cls, cls))
            continue
        for r in rules:
            want = reach(r, cls)
            got = bool(textx_isinstance(m.s, mm[r]))
            u.count("isinstance checks (grammar imports)")
            if want != got:
                u.fail(["imports", scenario, text, r], {"imports": scenario}, sig="imports isinstance %s" % want,
                       what="grammar files %s | input %r | textx_isinstance(%s object, %s) reference=%s implementation=%s" % (IMP_FILES, text, cls, r, want, got))


def run(ctx):
    c01.selfcheck()
    units = []
    counts = {}
    plan = [(1, 3, 200), (2, 3, 120), (3, 2, 40)] if ctx.tier == "quick" else [(1, 4, 400), (2, 3, 200), (3, 2, 60)]
    for n, L_, cap in plan:
        if n == 3 and ctx.tier == "quick":
            gs = list(grammars(3, "small", chain_slice()))
        elif n == 3:
            gs = list(grammars(3, "small"))
        else:
            gs = list(grammars(n, ctx.tier))
        counts[n] = len(gs)
        B = 25
        units += [(ctx.tier, L_, cap, gs[i:i + B]) for i in range(0, len(gs), B)]
    ctx.pmap(work, units)
    ctx.pmap(work_imports, [None])
    return {
        "rule": "case = (grammar, input) plus one kinds-case per grammar; grammars = all assignments of bodies (single item or ordered pair of "
                "distinct items as a two-way choice) to n attribute-less rules, all rules reachable from the root; plan (n, max tokens, input cap) = %s; "
                "non-trivial = reference accepts / grammar has an abstract rule" % (plan,),
        "exhaustive": True, "grammars_per_n": counts,
    }, ["inheritance reference: an abstract rule stands for the first non-match rule reference of each alternative (recursively through abstract rules)",
        "quick: n=3 is restricted to the chain slice (X0 and X1 two-way choices with the forward reference, X2 with a guarded back reference followed by a common rule)",
        "n=3 uses the reduced item alphabet (quick leaves, no 'X rule followed by a common rule' items)"]


def replay(p):
    if p.get("imports"):
        u = work_imports(p["imports"] if isinstance(p["imports"], str) else None)
        return not u.fails, {"failures": [f["what"] for f in u.fails][:5]}
    g = c01.totuple(p["grammar"])
    u = Unit()
    if p.get("input") is None and p.get("check") != "kinds":
        interp, mm, err = diff.compile_both(g, {})
        return err is None, {"grammar": refpeg.to_text(g), "compile_error": err}
    # re-run the whole grammar and report failures touching this input
    check_grammar(g, 3, u, 400)
    fails = [f for f in u.fails if p.get("input") is None or (len(f["id"]) > 1 and f["id"][1] == p["input"])]
    return not fails, {"grammar": refpeg.to_text(g), "failures": [f["what"] for f in fails][:5]}
