"""C11 - RREL reference resolution follows the documented expression semantics.

E1: all RREL expression texts up to d atoms over navigation (consuming, '~', fixed-name '~'), '.', '..', '...', '^',
parent(T), '*', brackets, '.' paths and ',' alternatives, with and without '+p:'; evaluated on generated models (nested
packages / classes / methods over names {a, b}, 'ext' references between classes including cycles) from every start
object with every name of up to 3 parts; through textx.scoping.rrel.find and, for a sub-family, through grammar
references.
Oracle: a denotational, set-based evaluator (each node maps a set of (object, remaining parts) to a set; '*' is a least
fixpoint).  Soundness + precedence: the result is among the matches of the first top-level alternative that has a match;
completeness: None exactly when no alternative matches.  '+p:': the proxy's last path element is the object returned
without the flag and the consumed path spells the name parts.
"""

import itertools

from mc.core import Unit, watchdog
from mc.props import c12

ID = "C11"
LEVEL = "exploration"
ENGINE = "E1-bounded-exhaustive-inputs"
TECHNIQUE = "bounded-exhaustive enumeration of RREL expressions x models x start objects x names on the real evaluator; set-based denotational reference (least fixpoint for '*')"
CLAIM = ("Every RREL expression derivable with up to d atoms from the alphabet is evaluated by the real textx.scoping.rrel.find from every object of "
         "every model of the family for every dotted name up to 3 parts; the result must be a member of the reference's match set of the first "
         "alternative with a match (soundness, precedence) and must be None only if every alternative's match set is empty (completeness); with "
         "'+p:' the proxy must end in the same object and spell the name.")
NOTE = ("Trusted: the 120-line set evaluator below (conventions: a path starting with a navigation starts at the model root, dots and parent(T) start at the "
        "object; '..' beyond the root fails; parent(T) is the nearest strict ancestor conforming to T). Sibling names are unique per list in the first four models; the fifth has same-named siblings (every one of them is a candidate). '+m:' (other files) is covered by C17.")

GRAMMAR = """
Model: packages*=P;
P: 'p' name=ID uid=INT '{' packages*=P classes*=C '}';
C: 'c' name=ID uid=INT ('ext' ext+=[C:INT][','])? '{' methods*=M '}';
M: 'm' name=ID uid=INT;
"""
_S = {}

MODELS = [
    "p a 1 { c a 2 { m a 3 } c b 4 ext 2 { m b 5 } }",
    "p a 1 { p a 2 { c b 3 { m a 4 } } c a 5 ext 3 { } } p b 6 { c a 7 ext 5 , 3 { m b 8 } }",
    "p a 1 { c a 2 ext 3 { m a 4 } c b 3 ext 2 { m b 5 } } p b 6 { p a 7 { c a 8 ext 2 { } } }",
    "p b 1 { p b 2 { p a 3 { c a 4 { m a 5 m b 6 } } } c b 7 ext 4 { } }",
    # sibling names are NOT unique: only a later element of the same name leads to a match
    "p a 1 { c a 2 { } c a 3 { m b 4 } } p a 5 { p a 8 { c a 9 { m a 10 } } c b 6 { m a 7 } }",
]


def world():
    if "mm" not in _S:
        from textx import metamodel_from_str, get_children, get_model

        mm = metamodel_from_str(GRAMMAR)

        def by_uid(obj, attr, obj_ref):
            uid = int(obj_ref.obj_name)
            r = get_children(lambda x: getattr(x, "uid", None) == uid, get_model(obj))
            return r[0] if r else None
        mm.register_scope_providers({"*.ext": by_uid})
        _S["mm"] = mm
        _S["models"] = []
        for t in MODELS:
            m = mm.model_from_str(t)
            objs = [m] + get_children(lambda x: x is not m, m)
            _S["models"].append((m, objs))

        # the first model once more with user classes whose instances are FALSY (containers reporting len() == 0)
        def falsy(name):
            return type(name, (), {"__init__": lambda self, **kw: self.__dict__.update(kw), "__len__": lambda self: 0})
        mmf = metamodel_from_str(GRAMMAR, classes=[falsy("P"), falsy("C"), falsy("M")])
        mmf.register_scope_providers({"*.ext": by_uid})
        m = mmf.model_from_str(MODELS[0])
        _S["models"].append((m, [m] + get_children(lambda x: x is not m, m)))
    return _S["mm"], _S["models"]


# ---- reference evaluator ---------------------------------------------------------------------

def root_of(o):
    while hasattr(o, "parent"):
        o = o.parent
    return o


def starts(node):
    """(start_locally, start_at_root) of a parsed RREL node"""
    from textx.scoping import rrel as R

    if isinstance(node, R.RRELNavigation):
        return (False, True)
    if isinstance(node, (R.RRELDots, R.RRELParent)):
        return (True, False)
    if isinstance(node, R.RRELBrackets):
        return starts(node.seq)
    if isinstance(node, R.RRELSequence):
        a = [starts(p) for p in node.paths]
        return (any(x[0] for x in a), any(x[1] for x in a))
    if isinstance(node, R.RRELPath):
        return starts(node.path_elements[0])
    if isinstance(node, R.RRELZeroOrMore):
        return starts(node.path_element)
    raise ValueError(node)


MAXPATH = 6


def ev(node, S, first, mm):
    """S: set of (id(obj), rem, path) with objects in OBJ; path = ids of the named objects matched so far (bounded length);
    returns the same kind of set"""
    from textx.scoping import rrel as R
    from textx import textx_isinstance

    out = set()
    if isinstance(node, R.RRELNavigation):
        for oid, rem, path in S:
            o = OBJ[oid]
            base = root_of(o) if first else o
            if node.consume_name and not rem:
                continue
            if not hasattr(base, node.name):
                continue
            target = getattr(base, node.name)
            if not node.consume_name and node.fixed_name is None:
                items = target if isinstance(target, list) else [target]
                for x in items:
                    if x is not None:
                        out.add((reg(x), rem, path))
            else:
                items = target if isinstance(target, list) else [target]
                want = node.fixed_name if node.fixed_name is not None else rem[0]
                for x in items:
                    if hasattr(x, "name") and x.name == want and len(path) < MAXPATH:
                        out.add((reg(x), rem if node.fixed_name is not None else rem[1:], path + (id(x),)))
        return out
    if isinstance(node, R.RRELDots):
        for oid, rem, path in S:
            o = OBJ[oid]
            n = node.num
            ok = True
            while n > 1:
                if not hasattr(o, "parent"):
                    ok = False
                    break
                o = o.parent
                n -= 1
            if ok:
                out.add((reg(o), rem, path))
        return out
    if isinstance(node, R.RRELParent):
        t = mm[node.type]
        for oid, rem, path in S:
            o = OBJ[oid]
            while hasattr(o, "parent"):
                o = o.parent
                if textx_isinstance(o, t):
                    out.add((reg(o), rem, path))
                    break
        return out
    if isinstance(node, R.RRELBrackets):
        return ev(node.seq, S, first, mm)
    if isinstance(node, R.RRELSequence):
        for p in node.paths:
            out |= ev(p, S, first, mm)
        return out
    if isinstance(node, R.RRELPath):
        cur = S
        for i, e in enumerate(node.path_elements):
            cur = ev(e, cur, first and i == 0, mm)
            if not cur:
                break
        return cur
    if isinstance(node, R.RRELZeroOrMore):
        body = node.path_element
        if first:
            loc, at_root = starts(node)
            for oid, rem, path in S:
                if loc:
                    out.add((oid, rem, path))
                if at_root:
                    out.add((reg(root_of(OBJ[oid])), rem, path))
            frontier = ev(body, S, True, mm)
        else:
            out |= S
            frontier = ev(body, S, False, mm)
        while frontier - out:
            new = frontier - out
            out |= new
            frontier = ev(body, new, False, mm)
        return out
    raise ValueError(node)


OBJ = {}


def reg(o):
    OBJ[id(o)] = o
    return id(o)


def ref_matches(tree, start, parts, cls, mm):
    """list (per top-level alternative) of sets of object ids that are full, type-conforming matches"""
    from textx import textx_isinstance

    res = []
    PATHS.clear()
    for p in tree.seq.paths:
        S = ev(p, {(reg(start), tuple(parts), ())}, True, mm)
        ok = {(oid, path) for oid, rem, path in S if not rem and hasattr(OBJ[oid], "_tx_position") and textx_isinstance(OBJ[oid], cls)}
        res.append({oid for oid, path in ok})
        PATHS.append(ok)
    return res


PATHS = []


# ---- enumeration -----------------------------------------------------------------------------

def expressions(tier):
    """quick: all texts with <= 2 atoms over 6 navigations; thorough: <= 2 atoms over 9 navigations plus <= 3 atoms over 2 navigations
    (3 atoms over the full alphabet would be 2.1 million expressions, about four hours)"""
    navs = ["packages", "classes", "methods", "~ext", "~packages", "'a'~classes", "'a'~packages"]
    spaces = [(navs, 2)]
    if tier == "thorough":
        spaces = [(navs + ["~classes", "ext", "'b'~packages"], 2), (["classes", "~ext"], 3)]
    old = c12._NAV[0]
    seen = set()
    try:
        for nv, N in spaces:
            c12._NAV[0] = nv
            for n in range(1, N + 1):
                for s in c12.gen_seq(n, 1, tier):
                    s = s.replace("parent(T)", "parent(P)")
                    if s not in seen:
                        seen.add(s)
                        yield s
    finally:
        c12._NAV[0] = old


NAMES = [p for n in (1, 2, 3) for p in itertools.product("ab", repeat=n)]
TARGETS = ["C", "M", "P"]


def run_expr(expr, with_proxy=True):
    from textx.scoping.rrel import parse, find
    from textx.scoping import Postponed

    mm, models = world()
    tree = parse(expr)
    ptree = parse("+p:" + expr) if with_proxy else None
    fails = []
    n = 0
    nt = 0
    for mi, (m, objs) in enumerate(models):
        for oi, o in enumerate(objs):
            for parts in NAMES:
                for tname in TARGETS:
                    cls = mm[tname]
                    n += 1
                    name = ".".join(parts)
                    try:
                        got = find(o, name, tree, cls)
                    except RecursionError:
                        got = "RecursionError"
                    except Exception as e:
                        got = "%s: %s" % (type(e).__name__, e)
                    per_alt = ref_matches(tree, o, parts, cls, mm)
                    first = next((s for s in per_alt if s), None)
                    desc = lambda x: None if x is None else ("%s %s#%s" % (type(x).__name__, getattr(x, "name", "?"), getattr(x, "uid", "")))
                    if isinstance(got, str) or isinstance(got, Postponed):
                        fails.append((mi, oi, name, tname, "unexpected " + str(got)[:80], None))
                        continue
                    if first is None:
                        if got is not None:
                            fails.append((mi, oi, name, tname, "resolved to %s but no expansion of the expression reaches a conforming object" % desc(got), None))
                        continue
                    nt += 1
                    if got is None:
                        fails.append((mi, oi, name, tname, "not resolved although %s is reachable" % sorted(desc(OBJ[x]) for x in first), None))
                    elif id(got) not in first:
                        where = "a later alternative" if any(id(got) in s for s in per_alt) else "no alternative"
                        fails.append((mi, oi, name, tname, "resolved to %s, which is in the match set of %s; first matching alternative gives %s" % (
                            desc(got), where, sorted(desc(OBJ[x]) for x in first)), None))
                    elif with_proxy:
                        try:
                            pr = find(o, name, ptree, cls, use_proxy=True)
                            path = pr._tx_path
                            if path[-1] is not got:
                                fails.append((mi, oi, name, tname, "+p: proxy ends in %s, the plain result is %s" % (desc(path[-1]), desc(got)), None))
                            else:
                                # the path must be one of the reference's paths to that object (the named objects traversed), ending in the target
                                alt = next(i for i, s_ in enumerate(per_alt) if s_)
                                good = set()
                                for oid, rp in PATHS[alt]:
                                    if oid == id(got):
                                        good.add(rp if rp and rp[-1] == oid else rp + (oid,))
                                pid = tuple(id(x) for x in path)
                                if pid not in good and all(len(g) < MAXPATH for g in good):
                                    fails.append((mi, oi, name, tname, "+p: path %s is not a path of named objects the expression traverses to the target (reference: %s)" % (
                                        [desc(x) for x in path], sorted([desc(OBJ[i]) for i in g] for g in good)[:3]), None))
                        except Exception as e:
                            fails.append((mi, oi, name, tname, "+p: %s: %s" % (type(e).__name__, e), None))
    return n, nt, fails


# ---- sub-family: references in a grammar, resolved while loading (targets of ~ext may still be unresolved) ---------
LOAD_EXPRS = ["packages.classes.~ext.methods,packages.classes.methods", "packages.classes.methods,packages.classes.~ext.methods",
              "packages.classes.~ext*.methods", "packages.~classes.~ext.methods,packages.~classes.methods", "^classes.~ext.methods,^classes.methods",
              "+p:packages.classes.~ext.methods,packages.classes.methods", "+p:packages.(classes,packages).(methods,classes)",
              "+p:packages.(packages.classes,classes).(~ext.methods,methods)"]
LOAD_MODELS = [
    ("u {0} ", "p a 1 {{ c a 2 ext 3 {{ m a 4 m b 9 }} c b 3 {{ m a 5 m b 6 }} }}"),
    ("", "p a 1 {{ c a 2 ext 3 {{ m a 4 }} c b 3 {{ m a 5 m b 6 }} }} u {0}"),
    ("u {0} u {0} ", "p a 1 {{ p b 7 {{ c a 8 {{ m b 10 }} }} c b 3 ext 2 {{ m b 6 }} c a 2 {{ m a 4 m b 11 }} }}"),
]
LOAD_NAMES = ["a.a.a", "a.a.b", "a.b.a", "a.b.b", "a.b", "a.a", "a.b.a.b"]


def run_load(expr, mi, name):
    from textx import metamodel_from_str, get_children, get_model
    from textx.exceptions import TextXSemanticError
    from textx.scoping.rrel import parse

    g = GRAMMAR.replace("Model: packages*=P;", "Model: (packages+=P | uses+=U)*;") + "U: 'u' t=[M:FQN|%s];\nFQN: ID('.'ID)*;\n" % expr
    mm = metamodel_from_str(g)

    def by_uid(obj, attr, obj_ref):
        uid = int(obj_ref.obj_name)
        r = get_children(lambda x: getattr(x, "uid", None) == uid, get_model(obj))
        return r[0] if r else None
    mm.register_scope_providers({"*.ext": by_uid})
    pre, post = LOAD_MODELS[mi]
    text = pre.format(name) + post.format(name)
    try:
        m = mm.model_from_str(text)
        got = [u.t for u in m.uses]
    except TextXSemanticError as e:
        # unknown object: judge completeness on a model without the uses
        m = mm.model_from_str(post.format(name).replace("u " + name, "") if "u " in post else post.format(name))
        got = None
        err = e.message
    tree = parse(expr)
    start = m if got is None else m.uses[0]
    plain = parse(expr[3:]) if expr.startswith("+p:") else tree
    per_alt = ref_matches(plain, start, tuple(name.split(".")), mm["M"], mm)
    first = next((s_ for s_ in per_alt if s_), None)
    desc = lambda x: None if x is None else "%s %s#%s" % (type(x).__name__, getattr(x, "name", "?"), getattr(x, "uid", ""))
    obs = {"rrel": expr, "model": text, "name": name}
    if got is None:
        obs["observed"] = "error: " + err[:80]
        return first is None, obs
    bad = []
    for t in got:
        obj = t._tx_obj if expr.startswith("+p:") and hasattr(t, "_tx_path") else t
        if first is None or id(obj) not in first:
            bad.append("resolved to %s, expected one of %s" % (desc(obj), None if first is None else sorted(desc(OBJ[x]) for x in first)))
        elif expr.startswith("+p:"):
            alt = next(i for i, s_ in enumerate(per_alt) if s_)
            good = set()
            for oid, rp in PATHS[alt]:
                if oid == id(obj):
                    good.add(rp if rp and rp[-1] == oid else rp + (oid,))
            if tuple(id(x) for x in t._tx_path) not in good:
                bad.append("+p: path %s is not a path the expression traverses (reference: %s)" % ([desc(x) for x in t._tx_path], sorted([desc(OBJ[i]) for i in g_] for g_ in good)[:3]))
    obs["observed"] = [desc(x._tx_obj if hasattr(x, "_tx_path") else x) for x in got]
    obs["failures"] = bad[:2]
    return not bad, obs


# ---- sub-family: chains of RREL references, each navigating over the reference of the previous one; all statement orders ----
CHAIN_GRAMMAR = """
Model: (cs+=C | bs+=B | xs+=X | ys+=Y | zs+=Z)*;
C: 'c' name=ID;
B: 'b' name=ID '->' ref=[C:ID|cs];
X: 'x' name=ID '->' t=[C:FQN|%s];
Y: 'y' name=ID '->' t=[C:FQN|%s];
Z: 'z' name=ID '->' t=[C:FQN|ys.t, xs.t];
FQN: ID('.'ID)*;
"""
CHAIN_EXPRS = [("bs.ref", "xs.t"), ("bs.~ref", "xs.~t"), ("+p:bs.ref", "+p:xs.t,cs"), ("bs.ref,cs", "zs.t,xs.t")]
CHAIN_STMTS = {"bs.ref": ["c c1", "b b1 -> c1", "x x1 -> b1.c1", "y y1 -> x1.c1", "z z1 -> y1.c1"],
               "bs.~ref": ["c c1", "b b1 -> c1", "x x1 -> b1", "y y1 -> x1", "z z1 -> y1.c1"]}


def run_chain(ei, order):
    from textx import metamodel_from_str
    from textx.exceptions import TextXSemanticError

    ex, ey = CHAIN_EXPRS[ei]
    mm = metamodel_from_str(CHAIN_GRAMMAR % (ex, ey))
    stmts = CHAIN_STMTS["bs.~ref" if "~" in ex else "bs.ref"]
    text = "\n".join(stmts[i] for i in order)
    obs = {"rrel_of_x": ex, "rrel_of_y": ey, "model": text}
    try:
        m = mm.model_from_str(text)
    except TextXSemanticError as e:
        obs["observed"] = "TextXSemanticError: " + str(e.message)[:100]
        return False, obs
    c1 = m.cs[0]
    def unwrap(v):
        # '+p:' references hold a proxy; a path that went through another '+p:' reference ends in that reference's proxy
        while type(v).__name__ == "ReferenceProxy":
            v = object.__getattribute__(v, "_tx_path")[-1]
        return v
    got = {"x": unwrap(m.xs[0].t), "y": unwrap(m.ys[0].t), "z": unwrap(m.zs[0].t), "b": m.bs[0].ref}
    obs["observed"] = {k: getattr(v, "name", None) for k, v in got.items()}
    return all(v is c1 for v in got.values()), obs


# ---- sub-family: shapes of names and of objects on the path ---------------------------------------------------------
SHAPE_INT = "Model: nodes+=Node edges+=Edge; Node: 'node' name=INT; Edge: 'edge' target=[Node:INT|%s];"
SHAPE_FALSY = ("Model: (structs+=Struct | insts+=Inst | refs+=Ref)*; Struct: 'struct' name=ID '{' vals*=Val '}'; Val: 'val' name=ID; "
               "Inst: 'inst' name=ID ':' type=[Struct]; Ref: 'ref' t=[Val:FQN|%s]; FQN: ID('.'ID)*;")
SHAPES = [("int-names", e) for e in ("nodes", "^nodes", "+p:nodes", "parent(Model).nodes")] + [("falsy-on-path", e) for e in ("insts.~type.vals", "+p:insts.~type.vals", "insts.~type.~vals.name" if False else "structs.vals")]


def run_shape(kind, expr):
    from textx import metamodel_from_str

    obs = {"family": kind, "rrel": expr}
    try:
        if kind == "int-names":
            # the name of the target is no text: a single name part
            m = metamodel_from_str(SHAPE_INT % expr).model_from_str("node 1 node 2 edge 2 edge 1")
            got = [getattr(e.target, "name", None) for e in m.edges]
            obs["observed"] = got
            return got == [2, 1], obs
        # a single-valued reference on the path holds an object of a user class that is falsy (len() == 0)
        Struct = type("Struct", (), {"__init__": lambda self, **kw: self.__dict__.update(kw), "__len__": lambda self: 0})
        m = metamodel_from_str(SHAPE_FALSY % expr, classes=[Struct]).model_from_str("struct A { val x } struct B { val y } inst a : A inst b : B ref %s" % ("A.x" if expr == "structs.vals" else "a.x"))
        t = m.refs[0].t
        obs["observed"] = getattr(t, "name", None)
        return obs["observed"] == "x" and t.parent is m.structs[0], obs
    except Exception as e:
        obs["observed"] = "%s: %s" % (type(e).__name__, str(e)[:120])
        return False, obs


def work_shapes(arg):
    u = Unit()
    for kind, expr in arg:
        with watchdog(20):
            ok, obs = run_shape(kind, expr)
        u.case(["shape", kind, expr], nontrivial=True, sample=obs)
        u.count("shape family:" + kind)
        if not ok:
            u.fail(["shape", kind, expr], {"shape": [kind, expr]}, sig="shape " + kind, what=str(obs)[:400])
    return u


def work_chain(arg):
    u = Unit()
    for ei, order in arg:
        with watchdog(20):
            try:
                ok, obs = run_chain(ei, order)
            except Exception as e:
                ok, obs = False, {"observed": "%s: %s" % (type(e).__name__, e)}
        u.case(["chain", ei, list(order)], nontrivial=list(order) != sorted(order), sample=obs if order[0] > 2 else None)
        u.count("reference-chain family")
        if not ok:
            u.fail(["chain", ei, list(order)], {"chain": [ei, list(order)]}, sig="chain " + str(obs.get("observed"))[:40], what=str(obs)[:500])
    return u


def work_load(arg):
    u = Unit()
    for expr, mi, name in arg:
        with watchdog(30):
            try:
                ok, obs = run_load(expr, mi, name)
            except Exception as e:
                import traceback

                ok, obs = False, {"rrel": expr, "observed": "%s: %s" % (type(e).__name__, e), "tb": traceback.format_exc()[-300:]}
        u.case(["load", expr, mi, name], nontrivial=True, sample=obs)
        u.count("grammar-reference family")
        if not ok:
            u.fail(["load", expr, mi, name], {"load": [expr, mi, name]}, sig="load " + str(obs.get("failures", obs.get("observed")))[:40], what=str(obs)[:600])
    return u


def work(arg):
    exprs = arg
    u = Unit()
    for expr in exprs:
        with watchdog(120):
            n, nt, fails = run_expr(expr)
        u.n += n
        u.ids ^= hash(expr) & 0xFFFFFFFF
        u.nt.append(hash(expr) & 0xFFFFFFFFFFFF) if nt else None
        u.count("expressions")
        u.count("evaluations with a reachable target", nt)
        if len(u.samples) < 2 and nt:
            u.samples.append({"rrel": expr, "finds": n, "with_reachable_target": nt})
        seen_sig = set()
        for mi, oi, name, tname, what, key in fails:
            sig = what.split(" ")[0] + " " + what.split(" ")[1]
            if (sig, key) in seen_sig:
                continue  # one report per expression and kind
            seen_sig.add((sig, key))
            u.fail([expr, mi, oi, name, tname], {"expr": expr, "model": mi, "obj": oi, "name": name, "target": tname}, key=key, sig=sig,
                   what="RREL %r, model %d, start object #%d, name %r, target type %s: %s" % (expr, mi, oi, name, tname, what))
    return u


def run(ctx):
    exprs = list(expressions(ctx.tier))
    B = 20 if ctx.tier == "quick" else 40
    ctx.pmap(work, [exprs[i:i + B] for i in range(0, len(exprs), B)])
    lc = [(e, mi, n) for e in LOAD_EXPRS for mi in range(len(LOAD_MODELS)) for n in LOAD_NAMES]
    ctx.pmap(work_load, [lc[i:i + 10] for i in range(0, len(lc), 10)])
    ch = [(ei, order) for ei in range(len(CHAIN_EXPRS)) for order in itertools.permutations(range(5))]
    ctx.pmap(work_chain, [ch[i:i + 40] for i in range(0, len(ch), 40)])
    ctx.pmap(work_shapes, [SHAPES])
    _, models = world()
    return {
        "rule": "case = (RREL expression, model, start object, dotted name, target type); expressions = %s; plus grammar references resolved while "
                "loading (every statement order of a chain of references navigating over each other); "
                "models = %d fixed models (%d objects in total, names {a,b} colliding across levels and classes, ext references incl. a cycle); names = all "
                "%d dotted names up to 3 parts; distinct_nontrivial counts expressions with at least one evaluation whose reference match set is non-empty" % (
                    "all texts with <= 2 atoms over 6 navigations" if ctx.tier == "quick" else "all texts with <= 2 atoms over 9 navigations and with <= 3 atoms over 2 navigations", len(models), sum(len(o) for _, o in models), len(NAMES)),
        "exhaustive": True, "expressions": len(exprs),
    }, ["set semantics: inside brackets alternatives are a union; precedence is judged between top-level alternatives only"]


def replay(p):
    from textx.scoping.rrel import parse, find

    if "load" in p:
        return run_load(*p["load"])
    if "shape" in p:
        return run_shape(*p["shape"])
    if "chain" in p:
        return run_chain(p["chain"][0], tuple(p["chain"][1]))

    mm, models = world()
    tree = parse(p["expr"])
    m, objs = models[p["model"]]
    o = objs[p["obj"]]
    cls = mm[p["target"]]
    got = find(o, p["name"], tree, cls)
    per_alt = ref_matches(tree, o, tuple(p["name"].split(".")), cls, mm)
    first = next((s for s in per_alt if s), None)
    ok = (got is None and first is None) or (got is not None and first is not None and id(got) in first)
    d = lambda x: None if x is None else "%s %s#%s" % (type(x).__name__, getattr(x, "name", "?"), getattr(x, "uid", ""))
    return ok, {"expr": p["expr"], "result": d(got), "reference_first_alternative_matches": None if first is None else sorted(d(OBJ[x]) for x in first)}
