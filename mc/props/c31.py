"""C31 - generated output files are all-or-nothing.

E4 crash-point enumeration: for the registered generators (textX->dot, textX->PlantUML, any->dot) on several metamodels
and models, a dry run counts the open / write / flush / close calls on the output file object (seam: the name `open`
looked up by textx.export, injected as a module attribute); then one run per call index raises OSError exactly there,
with and without a pre-existing complete output file and --overwrite.  Also: a user generator using gen_file whose
callback fails after opening the target itself.
Oracle: after the failure the target path does not exist, or still holds the previous complete content when it existed
before; no other file is left in the output directory; a following run without --overwrite produces the complete file
(byte-identical to an undisturbed run).
"""

import builtins
import os
import re

import logging

from mc import core

logging.getLogger("textx.generators").setLevel(logging.ERROR)
from mc.core import Unit, watchdog

ID = "C31"
LEVEL = "fault_enumeration"
ENGINE = "E4-fault-points"
TECHNIQUE = "exhaustive crash-point enumeration over every open/write/flush/close call of the export (fault-injecting file object), with directory-state oracle and differential re-run"
CLAIM = ("For each built-in generator and each input of the family, every call on the output file object made during an undisturbed run (counted by a "
         "dry run) is made to fail once; the output directory afterwards contains no partial or temporary file (or the untouched previous file), "
         "and the next run without --overwrite yields exactly the undisturbed output.")
NOTE = ("Trusted: the fault-injecting wrapper around the file object returned by open inside textx.export; os.replace is not failed (atomic rename is the "
        "trusted base). DOT node ids (id()) are normalised before comparing outputs.")

GRAMMARS = {
    "g1": "Model: shapes+=Shape; Shape: Circle | Box; Circle: 'circle' name=ID r=INT; Box: 'box' name=ID ('in' parent_box=[Box])?; Num: INT | FLOAT;",
    "g2": "Model: 'm' name=ID items*=Item; Item: name=ID '=' val=STRING;",
    # multi-file models: the export writes one cluster per model of the repository
    "g3": "Model: imports*=Import items*=Item; Import: 'import' importURI=STRING; Item: 'i' name=ID ('->' ref=[Item])?;",
}
MODELS = {"g1": ["circle c 3 box b box d in b"], "g2": ['m top a = "x|{y}" b = "z"'], "g3": ['import "lib.mod" i a -> b i c -> a']}


class Fail(OSError):
    pass


class FaultyFile:
    def __init__(self, real, ctl):
        self._real = real
        self._ctl = ctl

    def _tick(self, what):
        self._ctl["n"] += 1
        self._ctl["calls"].append(what)
        if self._ctl["fail_at"] == self._ctl["n"]:
            raise Fail("injected failure at call %d (%s)" % (self._ctl["n"], what))

    def write(self, s):
        self._tick("write")
        return self._real.write(s)

    def flush(self):
        self._tick("flush")
        return self._real.flush()

    def close(self):
        try:
            self._tick("close")
        finally:
            self._real.close()

    def __enter__(self):
        return self

    def __exit__(self, *a):
        self.close()
        return False

    def __getattr__(self, k):
        return getattr(self._real, k)


def inject(ctl):
    import textx.export

    def faulty_open(file, mode="r", *a, **k):
        if "w" in mode:
            ctl["n"] += 1
            ctl["calls"].append("open")
            if ctl["fail_at"] == ctl["n"]:
                raise Fail("injected failure at open")
            return FaultyFile(builtins.open(file, mode, *a, **k), ctl)
        return builtins.open(file, mode, *a, **k)
    textx.export.open = faulty_open


def uninject():
    import textx.export

    if "open" in textx.export.__dict__:
        del textx.export.open


def norm(text):
    ids = {}

    def rep(m):
        return ids.setdefault(m.group(0), "ID%d" % len(ids))
    text = re.sub(r"/[^\s\"]*/c31-\d+-\w+/", "<dir>/", text)  # cluster labels carry the model file's path
    return re.sub(r"\b\d{9,}\b", rep, text)


def scenarios():
    out = []
    for gk in GRAMMARS:
        out.append(("textX-dot", gk, None))
        out.append(("textX-plantuml", gk, None))
        for mi in range(len(MODELS[gk])):
            out.append(("any-dot", gk, mi))
    return out


def run_generator(kind, gk, mi, d, overwrite):
    """-> path of the output file"""
    from textx import metamodel_from_file, generator_for_language_target

    gfile = os.path.join(d, "in", gk + ".tx")
    os.makedirs(os.path.join(d, "in"), exist_ok=True)
    os.makedirs(os.path.join(d, "out"), exist_ok=True)
    with open(gfile, "w") as f:
        f.write(GRAMMARS[gk])
    mm = metamodel_from_file(gfile)
    if gk == "g3":
        from textx.scoping.providers import PlainNameImportURI

        mm.register_scope_providers({"*.*": PlainNameImportURI()})
        with open(os.path.join(d, "in", "lib.mod"), "w") as f:
            f.write("i b i e -> b")
    if kind == "any-dot":
        mfile = os.path.join(d, "in", "%s_%d.mod" % (gk, mi))
        with open(mfile, "w") as f:
            f.write(MODELS[gk][mi])
        model = mm.model_from_file(mfile)
        gen = generator_for_language_target("any", "dot")
        gen(mm, model, os.path.join(d, "out"), overwrite, False)
        return os.path.join(d, "out", "%s_%d.dot" % (gk, mi))
    lang, target, ext = ("textX", "dot", "dot") if kind == "textX-dot" else ("textX", "PlantUML", "pu")
    gen = generator_for_language_target(lang, target)
    gen(None, mm, os.path.join(d, "out"), overwrite, False)
    return os.path.join(d, "out", "%s.%s" % (gk, ext))


def fresh_dir(tag):
    import shutil

    d = os.path.join(core.rundir(), "c31-%d-%s" % (os.getpid(), tag))
    shutil.rmtree(d, ignore_errors=True)
    os.makedirs(d)
    return d


def dry(kind, gk, mi):
    d = fresh_dir("dry")
    ctl = {"n": 0, "fail_at": None, "calls": []}
    inject(ctl)
    try:
        path = run_generator(kind, gk, mi, d, False)
    finally:
        uninject()
    with open(path) as f:
        return ctl["calls"], norm(f.read())


def run_point(kind, gk, mi, k, pre):
    """pre: None | 'existing' (complete previous file, --overwrite) ; fail the k-th file call"""
    d = fresh_dir("pt")
    calls, good = dry(kind, gk, mi)
    obs = {"generator": kind, "input": [gk, mi], "fail_at_call": k, "call": calls[k - 1], "calls_total": len(calls), "preexisting": pre}
    bad = []
    ctl = {"n": 0, "fail_at": None, "calls": []}
    out = None
    if pre == "existing":
        out = run_generator(kind, gk, mi, d, False)
        with open(out, "w") as f:
            f.write("PREVIOUS COMPLETE CONTENT\n")
    before = sorted(os.listdir(os.path.join(d, "out"))) if os.path.isdir(os.path.join(d, "out")) else []
    ctl["fail_at"] = k
    inject(ctl)
    try:
        try:
            out = run_generator(kind, gk, mi, d, pre == "existing")
            bad.append(("generator did not fail",))
        except Fail:
            pass
        except Exception as e:
            bad.append(("unexpected exception", "%s: %s" % (type(e).__name__, e)))
    finally:
        uninject()
    after = sorted(os.listdir(os.path.join(d, "out")))
    if after != before:
        bad.append(("files in the output directory after the failure", before, after))
    if pre == "existing":
        if not os.path.exists(out):
            bad.append(("previous complete file is gone",))
        else:
            with open(out) as f:
                if f.read() != "PREVIOUS COMPLETE CONTENT\n":
                    bad.append(("previous complete file was damaged",))
    else:
        # a later run without --overwrite must produce the complete file
        try:
            out = run_generator(kind, gk, mi, d, False)
            with open(out) as f:
                txt = norm(f.read())
            if txt != good:
                bad.append(("output of the next run differs from an undisturbed run", len(txt), len(good)))
        except Exception as e:
            bad.append(("next run failed", "%s: %s" % (type(e).__name__, e)))
    obs["failures"] = bad[:3]
    return not bad, obs


def run_user_generator(k, overwrite=False, pre=False, link=False):
    """a third-party generator using gen_file whose callback opens the target itself and fails after k writes (k = -1: before opening);
    pre: a complete output of an earlier run exists and is regenerated with overwrite"""
    from textx.generators import gen_file

    d = fresh_dir("user")
    out = os.path.join(d, "x.out")
    OLD = "old line 0\nold line 1\nold line 2\nold line 3\n"
    if link:
        # the output path is a symbolic link into another directory (dangling unless an earlier output exists)
        os.makedirs(os.path.join(d, "store"), exist_ok=True)
        os.symlink(os.path.join(d, "store", "x.out"), out)
    if pre:
        with open(out, "w") as f:
            f.write(OLD)
        os.utime(out, ns=(10 ** 18, 10 ** 18))

    def cb():
        if k < 0:
            raise Fail("callback failure before the target is opened")
        with open(out, "w") as f:
            for i in range(3):
                if i == k:
                    raise Fail("callback failure")
                f.write("line %d\n" % i)
    bad = []
    try:
        gen_file("in.x", out, cb, overwrite=overwrite)
        if k < 3:
            bad.append(("no failure",))
    except Fail:
        pass
    left = open(out).read() if os.path.exists(out) else None
    if k < 3 and left is not None and not (pre and left == OLD):
        bad.append(("partial file left by a gen_file callback", left))
    done = []
    gen_file("in.x", out, lambda: (done.append(1), open(out, "w").write("complete"))[1], overwrite=False)
    if k < 3 and not done and not (pre and left == OLD):
        bad.append(("next run skipped the file",))
    return not bad, {"user_generator_fail_after_writes": k, "overwrite": overwrite, "pre_existing": pre, "output_is_symlink": link, "left_behind": left, "failures": bad}


def work(arg):
    pts = arg
    u = Unit()
    for p in pts:
        with watchdog(60):
            if p[0] == "user":
                ok, obs = run_user_generator(*p[1:])
            else:
                ok, obs = run_point(*p)
        u.case(list(p), nontrivial=True, sample=obs)
        u.count("failed call:" + str(obs.get("call", "user-callback")))
        if not ok:
            u.fail(list(p), {"point": list(p)}, sig=str(obs["failures"][0][0]), what=str(obs)[:500])
    return u


def run(ctx):
    pts = []
    totals = {}
    for kind, gk, mi in scenarios():
        calls, _ = dry(kind, gk, mi)
        totals["%s/%s/%s" % (kind, gk, mi)] = len(calls)
        for k in range(1, len(calls) + 1):
            for pre in (None, "existing"):
                pts.append((kind, gk, mi, k, pre))
    for k in range(4):
        for ow in (False, True):
            pts.append(("user", k, ow))
    for k in range(-1, 4):
        pts.append(("user", k, True, True))
        pts.append(("user", k, True, True, True))
        pts.append(("user", k, False, False, True))
    ctx.pmap(work, [pts[i:i + 6] for i in range(0, len(pts), 6)])
    return {
        "rule": "case = (generator, input, index k of the failing call on the output file among open/write/flush/close, target pre-existing or not); k ranges "
                "over every call counted by the dry run; plus a gen_file user callback (target not existing, with and without overwrite; target existing and complete, with overwrite) failing before opening / after 0..3 writes; every case is a distinct crash point",
        "exhaustive": True, "calls_per_scenario": totals, "same_in_both_tiers": True,
    }, ["os.replace and os.remove are not failed"]


def replay(p):
    pt = p["point"]
    if pt[0] == "user":
        return run_user_generator(*pt[1:])
    return run_point(*pt)
