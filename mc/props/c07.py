"""C07 - default reference resolution finds the unique matching object.

E1 with a dedicated reference: all forests of named definitions (classes A, B alternatives of
abstract Base; unrelated C; A may nest) up to D definitions over names {x, y}, one referencing
element of every kind and name, every builtins dictionary of a small family.
Oracle: set comprehension over the generated tree.
"""

from mc.core import Unit, watchdog

ID = "C07"
LEVEL = "exploration"
ENGINE = "E1-bounded-exhaustive-inputs"
TECHNIQUE = "bounded-exhaustive enumeration of model forests x reference kinds x builtins against a set-comprehension reference"
CLAIM = ("All models with up to D named definitions (names forced to collide across related and unrelated classes and nesting levels), "
         "each with every reference (target rule A / abstract Base / C, single and list attribute, names present, duplicated and dangling) "
         "and every builtins dictionary of the family are loaded by the real code; the resolved object identity or the error kind "
         "('Unknown object' / 'not unique') must equal a set comprehension over the model.")
NOTE = "Trusted: the forest generator and the comprehension. A decoy metamodel (same rule names, other hierarchy) is loaded first in every worker. Only the default provider (no registration) is exercised here."

GRAMMAR = """
Model: elems*=Elem;
Elem: A | B | C | Ra | Rbase | Rc | Rl | Rm | Rs;
A: 'A' name=ID ('{' elems*=Elem '}')?;
B: 'B' name=ID;
C: 'C' name=ID;
Base: A | B;
Ra: 'ra' ref=[A];
Rbase: 'rbase' ref=[Base];
Rc: 'rc' ref=[C];
Rl: 'rl' refs+=[Base][','];
Rm: 'rm' refs+=[Base] (',' refs+=[Base])*;
Rs: 'rs' ('alt' ref=[A] | ref=[A]);
"""
NAMES = ["x", "y"]
CONF = {"A": {"A", "Base"}, "B": {"Base"}, "C": {"C"}}
_S = {}


def forests(d, depth):
    """all forests with exactly d definitions; a definition = (kind, name, kids)"""
    if d == 0:
        yield ()
        return
    for k in range(1, d + 1):  # size of first tree
        for first in trees(k, depth):
            for rest in forests(d - k, depth):
                yield (first,) + rest


def trees(k, depth):
    for name in NAMES:
        if k == 1:
            yield ("B", name, ())
            yield ("C", name, ())
            yield ("A", name, ())
        if depth > 0 and k > 1:
            for kids in forests(k - 1, depth - 1):
                yield ("A", name, kids)


REFS = ([("ra", (n,)) for n in "xyz"] + [("rbase", (n,)) for n in "xyz"] + [("rc", (n,)) for n in "xyz"]
        + [("rl", (a,)) for a in "xz"] + [("rl", (a, b)) for a in "xyz" for b in "xyz"]
        # the same reference attribute assigned at two places of one rule
        + [("rm", (a, b)) for a in "xyz" for b in "xz"] + [("rs", (n,)) for n in "xyz"] + [("rs alt", (n,)) for n in "xz"])
REF_TARGET = {"ra": "A", "rbase": "Base", "rc": "C", "rl": "Base", "rm": "Base", "rs": "A", "rs alt": "A"}
# "z:Cpy": a plain Python instance of the user class registered for rule C (no position, no owning model)
BUILTINS = ["none", "x:A", "x:C", "z:A", "z:B", "z:Cpy"]


class C:
    def __init__(self, parent=None, name=None):
        self.parent = parent
        self.name = name


def render_forest(f):
    out = []
    for kind, name, kids in f:
        if kids:
            out.append("%s %s { %s }" % (kind, name, render_forest(kids)))
        else:
            out.append("%s %s" % (kind, name))
    return " ".join(out)


def flat(f, path=()):
    for i, (kind, name, kids) in enumerate(f):
        yield (kind, name, path + (i,))
        yield from flat(kids, path + (i,))


def world(tools=False):
    if "mm" not in _S:
        from textx import metamodel_from_str

        # A decoy metamodel with the same rule names but a different abstract hierarchy is created and
        # used first in every worker process: conformance must be decided per metamodel, never by rule name.
        decoy = metamodel_from_str(GRAMMAR.replace("Base: A | B;", "Base: C | B;").replace("Rl: 'rl' refs+=[Base][','];", "Rl: 'rl' refs+=[A][','];"))
        dm = decoy.model_from_str("A x B y C z rbase y rbase z ra x rc z rl x")
        assert dm.elems[4].ref is dm.elems[2]
        mm = metamodel_from_str(GRAMMAR, classes=[C])
        bm = mm.model_from_str("A x C x A z B z")
        _S["mm"] = mm
        _S["mm-tools"] = metamodel_from_str(GRAMMAR, classes=[C], textx_tools_support=True)
        _S["b"] = {"x:A": {"x": bm.elems[0]}, "x:C": {"x": bm.elems[1]}, "z:A": {"z": bm.elems[2]},
                   "z:B": {"z": bm.elems[3]}, "z:Cpy": {"z": C(name="z")}, "none": None}
    return _S["mm-tools" if tools else "mm"], _S["b"]


def obj_at(model, path):
    o = model
    for i in path:
        o = o.elems[i]
    return o


def expected_one(defs, target, name, bkey):
    cands = [p for (k, n, p) in defs if n == name and target in CONF[k]]
    if len(cands) == 1:
        return ("obj", cands[0])
    if len(cands) > 1:
        return ("err", "not unique")
    if bkey != "none":
        bn, bk = bkey.split(":")
        if bn == name and target in CONF[bk[:1]]:
            return ("builtin", bkey)
    return ("err", "Unknown object")


def run_case(forest, ref, bkey, nested, tools=False):
    from textx.exceptions import TextXSemanticError

    mm, B = world(tools)
    mm.builtins = B[bkey]
    kind, names = ref
    reftext = "%s %s" % (kind, " , ".join(names))
    if nested:
        # the referencing element sits inside the first A definition that has no kids yet / or has kids
        text = None
        for i, (k, n, kids) in enumerate(forest):
            if k == "A":
                inner = render_forest(kids)
                pre = render_forest(forest[:i])
                post = render_forest(forest[i + 1:])
                text = "%s A %s { %s %s } %s" % (pre, n, inner, reftext, post)
                refpath = (i, len(kids))
                break
        if text is None:
            return True, {"skipped": "no A to nest in"}
    else:
        text = render_forest(forest) + " " + reftext
        refpath = (len(forest),)
    defs = list(flat(forest))
    target = REF_TARGET[kind]
    exp = [expected_one(defs, target, n, bkey) for n in names]
    experr = next((e for e in exp if e[0] == "err"), None)
    obs = {"text": text, "builtins": bkey, "expected": exp}
    try:
        m = mm.model_from_str(text)
    except TextXSemanticError as e:
        obs["error"] = [e.message, e.err_type]
        if experr is None:
            return False, obs
        if experr[1] == "Unknown object":
            return e.err_type == "Unknown object" and e.message.startswith("Unknown object"), obs
        return "not unique" in e.message, obs
    except Exception as e:
        obs["error"] = "%s: %s" % (type(e).__name__, e)
        return False, obs
    if experr is not None:
        obs["got"] = "loaded"
        return False, obs
    r = obj_at(m, refpath)
    vals = list(r.refs) if kind in ("rl", "rm") else [r.ref]
    ok = len(vals) == len(exp)
    got = []
    for v, e in zip(vals, exp):
        if e[0] == "obj":
            good = v is obj_at(m, e[1])
        else:
            good = v is B[bkey][e[1].split(":")[0]]
        got.append(good)
        ok = ok and good
    obs["identity_ok"] = got
    return ok, obs


def work(arg):
    fs = arg
    u = Unit()
    for f in fs:
        for ref in REFS:
            for bkey in BUILTINS:
                for nested, tools in ((False, False), (True, False), (False, True)):
                    if tools and bkey == "none" and len(f) > 1:
                        continue
                    cid = [render_forest(f), list(ref), bkey, nested, tools]
                    with watchdog(10):
                        ok, obs = run_case(f, ref, bkey, nested, tools)
                    if "skipped" in obs:
                        continue
                    kinds = sorted({e[0] if e[0] != "err" else e[1] for e in obs["expected"]})
                    u.case(cid, nontrivial=True, sample=obs if len(f) > 1 else None)
                    u.count("expected:" + "+".join(kinds))
                    if not ok:
                        u.fail(cid, {"forest": f, "ref": ref, "builtins": bkey, "nested": nested, "tools": tools}, sig="%s %s tools=%s" % (ref[0], bkey, tools),
                               what="%s builtins=%s expected %s observed %s" % (obs["text"], bkey, obs["expected"], obs.get("error", obs.get("identity_ok", obs.get("got")))))
    return u


def tup(x):
    return tuple(tup(i) for i in x) if isinstance(x, (list, tuple)) else x


def run(ctx):
    D = 3 if ctx.tier == "quick" else 4
    fs = [f for d in range(0, D + 1) for f in forests(d, 2)]
    B = 8
    ctx.pmap(work, [fs[i:i + B] for i in range(0, len(fs), B)])
    return {
        "rule": "case = (forest of <=%d definitions over kinds A/B/C, names x/y, nesting depth <=2) x reference element (kind, names incl. "
                "dangling z) x builtins %s x placement (top level / nested in the first A / top level with textx_tools_support=True); every case is distinct and non-trivial (a real load)" % (D, BUILTINS),
        "exhaustive": True, "forests": len(fs), "references": len(REFS),
    }, ["abstract rule Base: A|B; conformance table A:{A,Base} B:{Base} C:{C} is the documented inheritance"]


def replay(p):
    return run_case(tup(p["forest"]), (p["ref"][0], tuple(p["ref"][1])), p["builtins"], p["nested"], p.get("tools", False))
