"""C18 - a failing multi-file load leaves the model repositories clean.

E4 fault enumeration over histories: for every import digraph (quick: all over 2 files + a representative set over 3;
thorough: all 512 over 3 files), every file of the closure failing in every phase (syntax error, unresolved reference,
object processor error, model processor error), global repository on/off, with and without an earlier successful load of
an unrelated file (and of a file of the same closure); then the failing file is repaired and the load repeated.
Oracle: after the failure the global repository holds exactly the models of earlier successful loads (same instances);
no model of the failed attempt is reachable through a surviving repository; the repaired load succeeds with one instance
per file and correct cross-file identities; the earlier models are still the cached instances.
"""

import os

from mc import core, mfiles
from mc.core import Unit, watchdog
from mc.props import c17

ID = "C18"
LEVEL = "fault_enumeration"
ENGINE = "E4-fault-points"
TECHNIQUE = "exhaustive enumeration of (import digraph, failing file, failing phase, repository mode, earlier-load history) with repository post-state predicates and a repaired reload"
CLAIM = ("Each closure file of each import digraph is made to fail in each of four phases, with the global repository on and off and after "
         "three kinds of earlier history; after the failure the repositories must contain exactly the earlier models, and after repairing the "
         "file the load must succeed with the identities C17 requires, the earlier models still being served from the cache.")
NOTE = "Trusted: digraph generator, injected failures (text edits and processors keyed on marker definitions). One failing file per attempt."

PHASES = ["syntax", "unresolved", "procfail", "modelproc"]
HISTORIES = ["none", "unrelated-before", "closure-file-before"]


def make(provider, grepo):
    mm = mfiles.make_mm(provider, grepo)

    def defproc(obj):
        if obj.name == "boom":
            raise ValueError("object processor failure")

    def modelproc(model, metamodel):
        if any(d.name == "failmodel" for d in model.defs):
            raise ValueError("model processor failure")
    mm.register_obj_processors({"Def": defproc})
    mm.register_model_processor(modelproc)
    return mm


def repo_files(mm):
    if hasattr(mm, "_tx_model_repository"):
        return {os.path.basename(k): v for k, v in mm._tx_model_repository.all_models.filename_to_model.items()}
    return {}


def run_case(g, bad_file, phase, grepo, history, provider="plain"):
    d = os.path.join(core.rundir(), "c18-%d" % os.getpid())
    os.makedirs(d, exist_ok=True)
    for f in os.listdir(d):
        os.remove(os.path.join(d, f))
    mm = make(provider, grepo)
    bad = []
    obs = {"graph": g, "failing_file": bad_file, "phase": phase, "global_repository": grepo, "history": history}
    earlier = {}
    with open(os.path.join(d, "g.m"), "w") as f:
        f.write("def gdef\nref rg -> gdef\n")
    try:
        if history == "unrelated-before":
            earlier["g.m"] = mm.model_from_file(os.path.join(d, "g.m"))
        elif history == "closure-file-before":
            # a leaf-like copy of a closure file that loads on its own: write the healthy files first and load a file that is not the failing one
            mfiles.write_files(d, g)
            cl = mfiles.closure(g, 0)
            cand = [i for i in cl if bad_file not in mfiles.closure(g, i)]
            if cand:
                m0 = mm.model_from_file(os.path.join(d, "f%d.m" % cand[0]))
                for i in mfiles.closure(g, cand[0]):
                    earlier["f%d.m" % i] = None  # identity taken from the repository below
                if grepo:
                    rf = repo_files(mm)
                    for k in list(earlier):
                        earlier[k] = rf.get(k)
        before = repo_files(mm)
        mfiles.write_files(d, g, broken=(bad_file, phase))
        try:
            mm.model_from_file(os.path.join(d, "f0.m"))
            bad.append(("load with a failing file succeeded",))
        except Exception as e:
            obs["error"] = "%s: %s" % (type(e).__name__, str(e).replace(d, "<dir>")[:120])
            if phase != "syntax" and type(e).__name__ == "TextXSyntaxError":
                raise core.HarnessError("phase %s: the broken file is not even syntactically valid: %s" % (phase, obs["error"]))
        after = repo_files(mm)
        if grepo:
            if set(after) != set(before) or any(after[k] is not before[k] for k in before):
                bad.append(("global repository after failure", sorted(before), sorted(after)))
        # surviving repositories of earlier models must not see models of the failed attempt
        for name, em in before.items():
            if hasattr(em, "_tx_model_repository"):
                seen = {os.path.basename(k) for k in em._tx_model_repository.all_models.filename_to_model}
                extra = seen - set(before)
                if extra:
                    bad.append(("earlier model's repository sees models of the failed attempt", name, sorted(extra)))
        # repair and reload
        mfiles.write_files(d, g)
        with mfiles.OpenCounter() as oc:
            m, b = c17.check_load(mm, d, g, provider, False, oc, expect_cached=False) if not (grepo and "f0.m" in before) else (None, [])
            if m is None:
                m = mm.model_from_file(os.path.join(d, "f0.m"))
                b = []
                if m is not before["f0.m"]:
                    b.append(("cached main model was replaced",))
            # files cached by earlier loads need not be opened again: only compare identities
            b = [x for x in b if x[0] != "open counts"]
            bad += b
        final = repo_files(mm)
        for k, v in before.items():
            if grepo and final.get(k) is not v:
                bad.append(("earlier cached model lost or replaced after repair", k))
    except core.HarnessError:
        raise
    except Exception as e:
        import traceback

        bad.append(("exception", "%s: %s" % (type(e).__name__, str(e).replace(d, "<dir>")), traceback.format_exc()[-300:]))
    obs["failures"] = bad[:3]
    return not bad, obs


# ---- second family: a caller-owned GlobalModelRepository ("project index") filled through GlobalRepo.load_models_in_model_repo
INDEX_FILES = {"a_base": "def b1\n", "m_main": "def m1\nref r1 -> b1\nref r2 -> l1\n", "leaf": "def l1\nref r3 -> b1\n"}
INDEX_BROKEN = {"syntax": "def l1\nref r3 -> -> b1\n", "unresolved": "def l1\nref r3 -> nowhere\n", "procfail": "def l1\ndef boom\nref r3 -> b1\n",
                "modelproc": "def l1\ndef failmodel\nref r3 -> b1\n"}


def run_index_case(phase, grepo, leaf_name, earlier, provider):
    """leaf_name decides whether the failing file is loaded before ('b_leaf') or after ('z_leaf') the file that refers to it"""
    from textx import register_language, clear_language_registrations, metamodel_from_str
    from textx.scoping import GlobalModelRepository
    from textx.scoping import providers as P

    d = os.path.join(core.rundir(), "c18i-%d" % os.getpid())
    os.makedirs(d, exist_ok=True)
    for f in os.listdir(d):
        os.remove(os.path.join(d, f))
    clear_language_registrations()
    mm = make("none", grepo)
    prov = getattr(P, provider)(os.path.join(d, "*.c18m"))
    mm.register_scope_providers({"*.*": prov})
    register_language("c18-lang", pattern="*.c18m", metamodel=mm)
    obs = {"family": "project index", "phase": phase, "global_repository": grepo, "failing_file": leaf_name, "earlier_load": earlier, "provider": provider}
    bad = []

    def write(name, text):
        with open(os.path.join(d, name + ".c18m"), "w") as f:
            f.write(text)

    def names(repo):
        return sorted(os.path.basename(k) for k in repo.filename_to_model)
    try:
        index = GlobalModelRepository()
        write("a_base", INDEX_FILES["a_base"])
        base = None
        if earlier:
            prov.load_models_in_model_repo(global_model_repo=index)
            base = index.all_models[os.path.join(d, "a_base.c18m")]
        before = names(index.all_models)
        mm_before = names(mm._tx_model_repository.all_models) if grepo else []
        write("m_main", INDEX_FILES["m_main"])
        write(leaf_name, INDEX_BROKEN[phase])
        try:
            prov.load_models_in_model_repo(global_model_repo=index)
            bad.append(("load with a failing file succeeded",))
        except Exception as e:
            obs["error"] = "%s: %s" % (type(e).__name__, str(e).replace(d, "<dir>")[:100])
            if phase != "syntax" and type(e).__name__ == "TextXSyntaxError":
                raise core.HarnessError("index family, phase %s: %s" % (phase, obs["error"]))
        if names(index.all_models) != before or names(index.local_models) not in (before, []):
            bad.append(("caller-owned repository after the failure", before, names(index.all_models), names(index.local_models)))
        if grepo and names(mm._tx_model_repository.all_models) != mm_before:
            bad.append(("metamodel repository after the failure", mm_before, names(mm._tx_model_repository.all_models)))
        if base is not None and index.all_models[os.path.join(d, "a_base.c18m")] is not base:
            bad.append(("earlier model replaced",))
        write(leaf_name, INDEX_FILES["leaf"])
        prov.load_models_in_model_repo(global_model_repo=index)
        got = {os.path.basename(k)[:-5]: v for k, v in index.all_models.filename_to_model.items()}
        if sorted(got) != sorted(["a_base", "m_main", leaf_name]):
            bad.append(("models after the repaired load", sorted(got)))
        else:
            if base is not None and got["a_base"] is not base:
                bad.append(("earlier model replaced by the repaired load",))
            tg = {r.name: r.target for m_ in got.values() for r in m_.refs}
            want = {"r1": got["a_base"].defs[0], "r2": got[leaf_name].defs[0], "r3": got["a_base"].defs[0]}
            for k in want:
                if tg.get(k) is not want[k]:
                    bad.append(("identity of reference after the repaired load", k))
            for m_ in got.values():
                if hasattr(m_, "_tx_reference_resolver"):
                    bad.append(("model still marked as under construction",))
    except core.HarnessError:
        raise
    except Exception as e:
        import traceback

        bad.append(("exception", "%s: %s" % (type(e).__name__, str(e).replace(d, "<dir>")), traceback.format_exc()[-300:]))
    finally:
        clear_language_registrations()
    obs["failures"] = bad[:3]
    return not bad, obs


# ---- third family: two registered languages, a model of one importing a model of the other; each meta-model may have its own global repository
def run_lang_case(phase, bad_file, grepo_app, grepo_lib):
    import textx
    from textx.scoping import providers as P

    d = os.path.join(core.rundir(), "c18l-%d" % os.getpid())
    os.makedirs(d, exist_ok=True)
    for f in os.listdir(d):
        os.remove(os.path.join(d, f))
    textx.clear_language_registrations()
    app, lib = make("plain", grepo_app), make("plain", grepo_lib)
    textx.register_language("c18app", pattern="*.app", metamodel=app)
    textx.register_language("c18lib", pattern="*.lib", metamodel=lib)
    good = {"f0.app": 'import "f1.lib"\ndef d0\nref r0 -> d0\nref r1 -> d1\n', "f1.lib": "def d1\nref r2 -> d1\n"}
    marker = {"syntax": "def\n", "unresolved": "ref bad -> nosuchdef\n", "procfail": None, "modelproc": None}
    obs = {"family": "two languages", "phase": phase, "failing_file": bad_file, "global_repository": [grepo_app, grepo_lib]}
    bad = []

    def write(broken):
        for fn, text in good.items():
            if broken and fn == bad_file:
                if phase in ("procfail", "modelproc"):
                    text = text.replace("def d", "def %s\ndef d" % ("boom" if phase == "procfail" else "failmodel"), 1)
                else:
                    text += marker[phase]
            with open(os.path.join(d, fn), "w") as f:
                f.write(text)

    def repos():
        return {n: sorted(os.path.basename(k) for k in mm._tx_model_repository.all_models.filename_to_model)
                for n, mm in (("app", app), ("lib", lib)) if hasattr(mm, "_tx_model_repository")}
    try:
        write(True)
        try:
            app.model_from_file(os.path.join(d, "f0.app"))
            bad.append(("load with a failing file succeeded",))
        except Exception as e:
            obs["error"] = "%s: %s" % (type(e).__name__, str(e).replace(d, "<dir>")[:100])
            if phase != "syntax" and type(e).__name__ == "TextXSyntaxError":
                raise core.HarnessError("two-language family, phase %s: %s" % (phase, obs["error"]))
        left = {k: v for k, v in repos().items() if v}
        if left:
            bad.append(("global repositories after the failure", left))
        write(False)
        m = app.model_from_file(os.path.join(d, "f0.app"))
        libs = [x for x in m._tx_model_repository.all_models if x is not m]
        if len(libs) != 1:
            bad.append(("models after the repaired load", len(libs) + 1))
        else:
            tg = {r.name: r.target for r in m.refs}
            if tg["r0"] is not m.defs[0] or tg["r1"] is not libs[0].defs[0] or libs[0].refs[0].target is not libs[0].defs[0]:
                bad.append(("identity of references after the repaired load",))
            if any(hasattr(x, "_tx_reference_resolver") for x in [m] + libs):
                bad.append(("model still marked as under construction",))
    except core.HarnessError:
        raise
    except Exception as e:
        import traceback

        bad.append(("exception", "%s: %s" % (type(e).__name__, str(e).replace(d, "<dir>")), traceback.format_exc()[-300:]))
    finally:
        textx.clear_language_registrations()
    obs["failures"] = bad[:3]
    return not bad, obs


def work_lang(arg):
    u = Unit()
    for c in arg:
        with watchdog(30):
            ok, obs = run_lang_case(*c)
        u.case(["languages"] + list(c), nontrivial=True, sample=obs)
        u.count("two-language family phase:%s -> %s" % (c[0], obs.get("error", "no error").split(":")[0]))
        if not ok:
            u.fail(["languages"] + list(c), {"languages": list(c)}, sig="languages %s | %s" % (obs["failures"][0][0], c[0]), what=str(obs)[:500])
    return u


# ---- fourth family: models given as strings (registered in the global repository under invented names) and root objects with __eq__
def run_string_case(phase, earlier, eq_root):
    from textx import metamodel_from_str
    from textx.scoping import providers as P

    d = os.path.join(core.rundir(), "c18s-%d" % os.getpid())
    os.makedirs(d, exist_ok=True)
    for f in os.listdir(d):
        os.remove(os.path.join(d, f))
    with open(os.path.join(d, "lib.m"), "w") as f:
        f.write("def l1\n")
    classes = None
    if eq_root:
        class Model:  # root user class comparing by content: two different models may compare equal
            def __init__(self, **kw):
                self.__dict__.update(kw)

            def __eq__(self, other):
                return isinstance(other, Model) and [x.name for x in self.defs] == [x.name for x in other.defs]

            __hash__ = object.__hash__
        classes = [Model]
    mm = metamodel_from_str(mfiles.GRAMMAR, global_repository=True, classes=classes)

    def defproc(obj):
        if obj.name == "boom":
            raise ValueError("object processor failure")

    def modelproc(model, metamodel):
        if any(x.name == "failmodel" for x in model.defs):
            raise ValueError("model processor failure")
    mm.register_obj_processors({"Def": defproc})
    mm.register_model_processor(modelproc)
    mm.register_scope_providers({"*.*": P.PlainNameGlobalRepo(os.path.join(d, "lib*.m"))})
    broken = {"syntax": "def s2\nref r -> -> l1\n", "unresolved": "def s2\nref r -> nope\n", "procfail": "def s2\ndef boom\nref r -> l1\n",
              "modelproc": "def s2\ndef failmodel\nref r -> l1\n"}[phase]
    obs = {"family": "string models", "phase": phase, "earlier": earlier, "root_with_eq": eq_root}
    bad = []

    def repo():
        return {os.path.basename(str(k)): v for k, v in mm._tx_model_repository.all_models.filename_to_model.items()}
    try:
        m1 = None
        if earlier == "string":
            m1 = mm.model_from_str("def s2\nref r -> l1\n")  # same definitions as the failing model: equal under the user's __eq__
        elif earlier == "file":
            with open(os.path.join(d, "good.m"), "w") as f:
                f.write("def s2\nref r -> l1\n")
            m1 = mm.model_from_file(os.path.join(d, "good.m"))
        before = repo()
        try:
            mm.model_from_str(broken)
            bad.append(("load with a failing model succeeded",))
        except Exception as e:
            obs["error"] = "%s: %s" % (type(e).__name__, str(e).replace(d, "<dir>")[:100])
            if phase != "syntax" and type(e).__name__ == "TextXSyntaxError":
                raise core.HarnessError("string family, phase %s: %s" % (phase, obs["error"]))
        after = repo()
        lost = sorted(k for k in before if after.get(k) is not before[k])
        extra = sorted(k for k in after if k not in before)
        if lost:
            bad.append(("models of earlier successful loads lost or replaced", lost))
        if extra:
            bad.append(("models of the failed attempt left in the global repository", extra))
        m2 = mm.model_from_str("def s3\nref r -> l1\n")
        if m2.refs[0].target is None or m2.refs[0].target.name != "l1":
            bad.append(("load after the failure",))
        if m1 is not None and m1.refs[0].target is not m2.refs[0].target and "lib.m" in before:
            bad.append(("library model loaded twice",))
        # a further good model with the text of the earlier one: under the user's __eq__ it is EQUAL to a model of the repository, yet a model of its own
        m3 = mm.model_from_str("def s2\nref r -> l1\n")
        if m3 is m1 or m3.refs[0].target is None or getattr(m3.refs[0].target, "name", None) != "l1":
            bad.append(("good load of a model equal to a cached one", repr(getattr(m3.refs[0], "target", None))[:60]))
        if classes and any(k in classes[0].__dict__ for k in ("_tx_instrumented", "_tx_real_setattr")):
            bad.append(("user class left instrumented after a good load",))
    except core.HarnessError:
        raise
    except Exception as e:
        import traceback

        bad.append(("exception", "%s: %s" % (type(e).__name__, str(e).replace(d, "<dir>")), traceback.format_exc()[-300:]))
    obs["failures"] = bad[:3]
    return not bad, obs


def run_equal_case(provider, second):
    """no failure at all: a model that is EQUAL (user __eq__) to a model cached by the global repository is loaded from a string / another file;
    it is a model of its own: resolved, initialised, and the user classes are left uninstrumented"""
    from textx import metamodel_from_str
    from textx.scoping import providers as P

    d = os.path.join(core.rundir(), "c18e-%d" % os.getpid())
    os.makedirs(d, exist_ok=True)
    inits = []

    class Model:
        def __init__(self, **kw):
            inits.append(id(self))
            self.__dict__.update(kw)

        def __eq__(self, other):
            return isinstance(other, Model) and [x.name for x in self.defs] == [x.name for x in other.defs]

        __hash__ = object.__hash__
    mm = metamodel_from_str(mfiles.GRAMMAR, global_repository=True, classes=[Model])
    mm.register_scope_providers({"*.*": getattr(P, provider)()})
    text = "def s2\nref r -> s2\n"
    for fn in ("good.m", "other.m"):
        with open(os.path.join(d, fn), "w") as f:
            f.write(text)
    obs = {"family": "equal good model", "provider": provider, "second_load": second}
    bad = []
    try:
        m1 = mm.model_from_file(os.path.join(d, "good.m"))
        m2 = mm.model_from_str(text) if second == "string" else mm.model_from_file(os.path.join(d, "other.m"))
        if m2 is m1:
            bad.append(("the cached model was returned for another source",))
        if getattr(m2.refs[0], "target", None) is not m2.defs[0]:
            bad.append(("reference of the second model", repr(getattr(m2.refs[0], "target", None))[:60]))
        if id(m2) not in inits:
            bad.append(("root object of the second model was never initialised",))
        if any(k in Model.__dict__ for k in ("_tx_instrumented", "_tx_real_setattr")) or Model.__dict__.get("_tx_obj_attrs"):
            bad.append(("user class left instrumented / holding attributes after a good load",))
    except Exception as e:
        bad.append(("exception", "%s: %s" % (type(e).__name__, str(e).replace(d, "<dir>")[:120])))
    obs["failures"] = bad[:3]
    return not bad, obs


def work_string(arg):
    u = Unit()
    for c in arg:
        with watchdog(30):
            ok, obs = run_equal_case(*c[1:]) if c[0] == "equal" else run_string_case(*c)
        u.case(["strings"] + list(c), nontrivial=True, sample=obs)
        u.count("string family phase:%s -> %s" % (c[0], obs.get("error", "no error").split(":")[0]))
        if c[0] == "equal":
            c = tuple(c)
        if not ok:
            u.fail(["strings"] + list(c), {"strings": list(c)}, sig="strings %s | %s %s" % (obs["failures"][0][0], c[0], c[1]), what=str(obs)[:500])
    return u


def work_index(arg):
    u = Unit()
    for c in arg:
        with watchdog(30):
            ok, obs = run_index_case(*c)
        u.case(["index"] + list(c), nontrivial=True, sample=obs)
        u.count("index family phase:%s -> %s" % (c[0], obs.get("error", "no error").split(":")[0]))
        if not ok:
            u.fail(["index"] + list(c), {"index": list(c)}, sig="index %s | %s" % (obs["failures"][0][0], c[0]), what=str(obs)[:500])
    return u


def work(arg):
    cases = arg
    u = Unit()
    for g, bf, phase, grepo, hist, prov in cases:
        cid = [g, bf, phase, grepo, hist, prov]
        with watchdog(30):
            ok, obs = run_case(g, bf, phase, grepo, hist, prov)
        u.case(cid, nontrivial=True, sample=obs if bf != 0 and hist != "none" else None)
        u.count("phase:%s -> %s" % (phase, obs.get("error", "no error").split(":")[0]))
        if not ok:
            u.fail(cid, {"graph": g, "bad_file": bf, "phase": phase, "grepo": grepo, "history": hist, "provider": prov},
                   sig="%s | %s %s" % (obs["failures"][0][0], phase, hist),
                   what="graph=%s failing f%d (%s) grepo=%s history=%s :: %s" % (g, bf, phase, grepo, hist, str(obs["failures"][:2])[:400]))
    return u


def run(ctx):
    gs = list(mfiles.graphs(2))
    g3 = list(mfiles.graphs(3))
    if ctx.tier == "quick":
        g3 = g3[::8]
    cases = []
    for g in gs + g3:
        for bf in mfiles.closure(g, 0):
            for phase in PHASES:
                for grepo in (False, True):
                    for hist in (HISTORIES if grepo else ["none"]):
                        for prov in (["plain"] if len(g) == 3 and ctx.tier == "quick" else ["plain", "plain-searchpath"]):
                            cases.append((g, bf, phase, grepo, hist, prov))
    B = 30
    ctx.pmap(work, [cases[i:i + B] for i in range(0, len(cases), B)])
    icases = [(ph, gr, leaf, earlier, prov) for ph in PHASES for gr in (False, True) for leaf in ("b_leaf", "z_leaf") for earlier in (False, True)
              for prov in ("PlainNameGlobalRepo", "FQNGlobalRepo")]
    ctx.pmap(work_index, [icases[i:i + 4] for i in range(0, len(icases), 4)])
    scases = [(ph, earlier, eq) for ph in PHASES for earlier in (None, "string", "file") for eq in (False, True)]
    scases += [("equal", prov, second) for prov in ("PlainNameImportURI", "FQNImportURI", "PlainNameGlobalRepo") for second in ("string", "file")]
    ctx.pmap(work_string, [scases[i:i + 4] for i in range(0, len(scases), 4)])
    lcases = [(ph, bf, ga, gl) for ph in PHASES for bf in ("f0.app", "f1.lib") for ga in (False, True) for gl in (False, True)]
    ctx.pmap(work_lang, [lcases[i:i + 4] for i in range(0, len(lcases), 4)])
    return {
        "rule": "case = (import digraph, failing closure file, phase in %s, global repository on/off, earlier history in %s, provider); all digraphs over 2 "
                "files and %s over 3 files; every case is a failing load followed by a repaired load; second family: a caller-owned GlobalModelRepository filled through "
                "GlobalRepo.load_models_in_model_repo (phase x global repository x failing file loaded before/after its user x earlier successful load x provider); third family: two registered languages, each meta-model "
                "with or without its own global repository, f0.app importing f1.lib, every phase failing in either file" % (PHASES, HISTORIES, "every 8th digraph" if ctx.tier == "quick" else "all 512 digraphs"),
        "exhaustive": True, "cases": len(cases),
    }, ["the failing file is f0's closure member; failures are injected by text (syntax, unresolved reference) or by marker definitions that make a processor raise"]


def replay(p):
    if "index" in p:
        return run_index_case(*p["index"])
    if "languages" in p:
        return run_lang_case(*p["languages"])
    if "strings" in p:
        return run_equal_case(*p["strings"][1:]) if p["strings"][0] == "equal" else run_string_case(*p["strings"])
    g = tuple(tuple(x) for x in p["graph"])
    return run_case(g, p["bad_file"], p["phase"], p["grepo"], p["history"], p.get("provider", "plain"))
