"""C18 - a failing multi-file load leaves the model repositories clean.

E4 fault enumeration over histories: for every import digraph (quick: all over 2 files + a representative set over 3;
thorough: all 512 over 3 files), every file of the closure failing in every phase (syntax error, unresolved reference,
object processor error, model processor error), global repository on/off, with and without an earlier successful load of
an unrelated file (and of a file of the same closure); then the failing file is repaired and the load repeated.
Oracle: after the failure the global repository holds exactly the models of earlier successful loads (same instances);
no model of the failed attempt is reachable through a surviving repository; the repaired load succeeds with one instance
per file and correct cross-file identities; the earlier models are still the cached instances.
"""

import os

from mc import core, mfiles
from mc.core import Unit, watchdog
from mc.props import c17

ID = "C18"
LEVEL = "fault_enumeration"
ENGINE = "E4-fault-points"
TECHNIQUE = "exhaustive enumeration of (import digraph, failing file, failing phase, repository mode, earlier-load history) with repository post-state predicates and a repaired reload"
CLAIM = ("Each closure file of each import digraph is made to fail in each of four phases, with the global repository on and off and after "
         "three kinds of earlier history; after the failure the repositories must contain exactly the earlier models, and after repairing the "
         "file the load must succeed with the identities C17 requires, the earlier models still being served from the cache.")
NOTE = "Trusted: digraph generator, injected failures (text edits and processors keyed on marker definitions). One failing file per attempt."

PHASES = ["syntax", "unresolved", "procfail", "modelproc"]
HISTORIES = ["none", "unrelated-before", "closure-file-before"]


def make(provider, grepo):
    mm = mfiles.make_mm(provider, grepo)

    def defproc(obj):
        if obj.name == "boom":
            raise ValueError("object processor failure")

    def modelproc(model, metamodel):
        if any(d.name == "failmodel" for d in model.defs):
            raise ValueError("model processor failure")
    mm.register_obj_processors({"Def": defproc})
    mm.register_model_processor(modelproc)
    return mm


def repo_files(mm):
    if hasattr(mm, "_tx_model_repository"):
        return {os.path.basename(k): v for k, v in mm._tx_model_repository.all_models.filename_to_model.items()}
    return {}


def run_case(g, bad_file, phase, grepo, history, provider="plain"):
    d = os.path.join(core.rundir(), "c18-%d" % os.getpid())
    os.makedirs(d, exist_ok=True)
    for f in os.listdir(d):
        os.remove(os.path.join(d, f))
    mm = make(provider, grepo)
    bad = []
    obs = {"graph": g, "failing_file": bad_file, "phase": phase, "global_repository": grepo, "history": history}
    earlier = {}
    with open(os.path.join(d, "g.m"), "w") as f:
        f.write("def gdef\nref rg -> gdef\n")
    try:
        if history == "unrelated-before":
            earlier["g.m"] = mm.model_from_file(os.path.join(d, "g.m"))
        elif history == "closure-file-before":
            # a leaf-like copy of a closure file that loads on its own: write the healthy files first and load a file that is not the failing one
            mfiles.write_files(d, g)
            cl = mfiles.closure(g, 0)
            cand = [i for i in cl if bad_file not in mfiles.closure(g, i)]
            if cand:
                m0 = mm.model_from_file(os.path.join(d, "f%d.m" % cand[0]))
                for i in mfiles.closure(g, cand[0]):
                    earlier["f%d.m" % i] = None  # identity taken from the repository below
                if grepo:
                    rf = repo_files(mm)
                    for k in list(earlier):
                        earlier[k] = rf.get(k)
        before = repo_files(mm)
        mfiles.write_files(d, g, broken=(bad_file, phase))
        try:
            mm.model_from_file(os.path.join(d, "f0.m"))
            bad.append(("load with a failing file succeeded",))
        except Exception as e:
            obs["error"] = "%s: %s" % (type(e).__name__, str(e).replace(d, "<dir>")[:120])
        after = repo_files(mm)
        if grepo:
            if set(after) != set(before) or any(after[k] is not before[k] for k in before):
                bad.append(("global repository after failure", sorted(before), sorted(after)))
        # surviving repositories of earlier models must not see models of the failed attempt
        for name, em in before.items():
            if hasattr(em, "_tx_model_repository"):
                seen = {os.path.basename(k) for k in em._tx_model_repository.all_models.filename_to_model}
                extra = seen - set(before)
                if extra:
                    bad.append(("earlier model's repository sees models of the failed attempt", name, sorted(extra)))
        # repair and reload
        mfiles.write_files(d, g)
        with mfiles.OpenCounter() as oc:
            m, b = c17.check_load(mm, d, g, provider, False, oc, expect_cached=False) if not (grepo and "f0.m" in before) else (None, [])
            if m is None:
                m = mm.model_from_file(os.path.join(d, "f0.m"))
                b = []
                if m is not before["f0.m"]:
                    b.append(("cached main model was replaced",))
            # files cached by earlier loads need not be opened again: only compare identities
            b = [x for x in b if x[0] != "open counts"]
            bad += b
        final = repo_files(mm)
        for k, v in before.items():
            if grepo and final.get(k) is not v:
                bad.append(("earlier cached model lost or replaced after repair", k))
    except Exception as e:
        import traceback

        bad.append(("exception", "%s: %s" % (type(e).__name__, str(e).replace(d, "<dir>")), traceback.format_exc()[-300:]))
    obs["failures"] = bad[:3]
    return not bad, obs


def work(arg):
    cases = arg
    u = Unit()
    for g, bf, phase, grepo, hist, prov in cases:
        cid = [g, bf, phase, grepo, hist, prov]
        with watchdog(30):
            ok, obs = run_case(g, bf, phase, grepo, hist, prov)
        u.case(cid, nontrivial=True, sample=obs if bf != 0 and hist != "none" else None)
        u.count("phase:" + phase)
        if not ok:
            u.fail(cid, {"graph": g, "bad_file": bf, "phase": phase, "grepo": grepo, "history": hist, "provider": prov},
                   sig="%s | %s %s" % (obs["failures"][0][0], phase, hist),
                   what="graph=%s failing f%d (%s) grepo=%s history=%s :: %s" % (g, bf, phase, grepo, hist, str(obs["failures"][:2])[:400]))
    return u


def run(ctx):
    gs = list(mfiles.graphs(2))
    g3 = list(mfiles.graphs(3))
    if ctx.tier == "quick":
        g3 = g3[::8]
    cases = []
    for g in gs + g3:
        for bf in mfiles.closure(g, 0):
            for phase in PHASES:
                for grepo in (False, True):
                    for hist in (HISTORIES if grepo else ["none"]):
                        for prov in (["plain"] if len(g) == 3 and ctx.tier == "quick" else ["plain", "plain-searchpath"]):
                            cases.append((g, bf, phase, grepo, hist, prov))
    B = 30
    ctx.pmap(work, [cases[i:i + B] for i in range(0, len(cases), B)])
    return {
        "rule": "case = (import digraph, failing closure file, phase in %s, global repository on/off, earlier history in %s, provider); all digraphs over 2 "
                "files and %s over 3 files; every case is a failing load followed by a repaired load" % (PHASES, HISTORIES, "every 8th digraph" if ctx.tier == "quick" else "all 512 digraphs"),
        "exhaustive": True, "cases": len(cases),
    }, ["the failing file is f0's closure member; failures are injected by text (syntax, unresolved reference) or by marker definitions that make a processor raise"]


def replay(p):
    g = tuple(tuple(x) for x in p["graph"])
    return run_case(g, p["bad_file"], p["phase"], p["grepo"], p["history"], p.get("provider", "plain"))
