"""C10 - the FQN scope provider resolves only genuine qualified names.

E1 with a dedicated reference: all trees of nested named packages/classes (names {a,b}, sibling
names unique, names repeated at different depths) x one optional non-containment link between any
two nodes x the referencing object in every container x every dotted name of <= 3 parts x target type.
Oracle: innermost start among (referencing object, its ancestors) from which a containment chain of
named objects spells the parts and ends in a conforming type.
"""

import itertools

from mc.core import Unit, watchdog

ID = "C10"
LEVEL = "exploration"
ENGINE = "E1-bounded-exhaustive-inputs"
TECHNIQUE = "bounded-exhaustive enumeration of package/class trees x links x dotted names on the real FQN provider; containment-chain reference"
CLAIM = ("Every tree of nested packages and classes up to N nodes over names {a,b} (unique among siblings), every placement of the referencing "
         "object, every dotted reference text up to 3 parts, every target type (Class, Package, abstract Named) and every single "
         "non-containment link between two nodes (resolved before the FQN reference) is loaded with the real FQN provider; the result must be "
         "the object the containment-chain definition selects, else an 'Unknown object' error.")
NOTE = "Trusted: the tree generator and the chain reference. scope_redirection_logic and importURI variants are not exercised here."

GRAMMAR = """
Model: (packages+=Package | classes+=Class | refs+=Ref)*;
Package: 'p' name=ID uid=INT ('>' link=[Named:INT])? ('>>' links+=[Named:INT][','])? '{' (packages+=Package | classes+=Class | refs+=Ref)* '}';
Class: 'c' name=ID uid=INT ('>' link=[Named:INT])? ('>>' links+=[Named:INT][','])?;
Named: Package | Class;
Ref: RefC | RefP | RefN;
RefC: 'rc' t=[Class:FQN] | 'rcx' t=[Class:FQN];
RefP: 'rp' t=[Package:FQN] | 'rpx' '(' t=[Package:FQN] ')';
RefN: 'rn' t=[Named:FQN];
FQN: ID ('.' ID)*;
"""
NAMES = "ab"
_S = {}


def trees(n):
    """forests with exactly n nodes; node = (kind, name, kids); sibling names unique"""
    def forest(n, used):
        if n == 0:
            yield ()
            return
        for name in NAMES:
            if name in used:
                continue
            # keep siblings in name order to avoid permuted duplicates
            if used and name < max(used):
                continue
            for k in range(1, n + 1):
                for first in node(k, name):
                    for rest in forest(n - k, used | {name}):
                        yield (first,) + rest

    def node(k, name):
        if k == 1:
            yield ("c", name, ())
        for kids in forest(k - 1, frozenset()):
            yield ("p", name, kids)

    yield from forest(n, frozenset())


def flatten(f, path=()):
    for i, (kind, name, kids) in enumerate(f):
        p = path + (i,)
        yield p, kind, name
        yield from flatten(kids, p)


def render(f, ids, link, refsite, reftext, path=()):
    """ids: path->uid; link: (src path, dst path) or None; refsite: path of container (() = root)."""
    out = []
    for i, (kind, name, kids) in enumerate(f):
        p = path + (i,)
        head = "%s %s %d" % (kind, name, ids[p])
        if link and link[0] == p:
            # a third element "list": the link is written as a multi-valued reference (links+=) with the target given twice
            head += (" >> %d , %d" % (ids[link[1]], ids[link[1]])) if len(link) > 2 else (" > %d" % ids[link[1]])
        if kind == "p":
            inner = render(kids, ids, link, refsite, reftext, p)
            if refsite == p:
                inner = (inner + " " + reftext).strip()
            out.append("%s { %s }" % (head, inner))
        else:
            out.append(head)
    s = " ".join(out)
    if path == () and refsite == ():
        s = (s + " " + reftext).strip()
    return s


def subforest(f, path):
    for i in path:
        f = f[i][2]
    return f


def conforms(kind, target):
    return target == "Named" or (target == "Class" and kind == "c") or (target == "Package" and kind == "p")


def expected(f, refsite, parts, target):
    """nearest start among refsite container chain (the Ref object itself has no children)."""
    start = refsite
    while True:
        cur = subforest(f, start)
        path = start
        kind = None
        ok = True
        for part in parts:
            idx = next((i for i, (k, n, kids) in enumerate(cur) if n == part), None)
            if idx is None:
                ok = False
                break
            kind = cur[idx][0]
            path = path + (idx,)
            cur = cur[idx][2]
        if ok and conforms(kind, target):
            return path
        if start == ():
            return None
        start = start[:-1]


class Package:
    """container-like user class: a package without members is falsy"""

    def __init__(self, **kw):
        self.__dict__.update(kw)

    def __len__(self):
        return len(self.packages) + len(self.classes)


class Class:
    """user class that is always falsy (it has no members at all)"""

    def __init__(self, **kw):
        self.__dict__.update(kw)

    def __len__(self):
        return 0


class XPackage:
    """user class that keeps, next to the grammar's attributes, an attribute of its own holding other model objects (a plain Python
    relation such as 'friends' / 'bases'); it is also callable"""

    def __init__(self, **kw):
        self.__dict__.update(kw)
        self.friends = [kw["link"]] if kw.get("link") is not None else []

    def __call__(self):
        return self.name


class XClass:
    def __init__(self, **kw):
        self.__dict__.update(kw)
        self.friends = [kw["link"]] if kw.get("link") is not None else []

    def __call__(self):
        return self.name


XPackage.__name__, XClass.__name__ = "Package", "Class"


def world(user=False):
    if user == "extra":
        if "mm-extra" not in _S:
            from textx import metamodel_from_str, get_model, get_children
            from textx.scoping.providers import FQN

            mmx = metamodel_from_str(GRAMMAR, classes=[XPackage, XClass])

            def by_uid_x(obj, attr, obj_ref):
                uid = int(obj_ref.obj_name)
                r = get_children(lambda x: getattr(x, "uid", None) == uid, get_model(obj))
                return r[0] if r else None
            mmx.register_scope_providers({"*.t": FQN(), "*.link": by_uid_x, "*.links": by_uid_x})
            _S["mm-extra"] = mmx
        return _S["mm-extra"]
    if user:
        if "mm-user" not in _S:
            from textx import metamodel_from_str, get_model, get_children
            from textx.scoping.providers import FQN

            mmu = metamodel_from_str(GRAMMAR, classes=[Package, Class])

            def by_uid_u(obj, attr, obj_ref):
                uid = int(obj_ref.obj_name)
                r = get_children(lambda x: getattr(x, "uid", None) == uid, get_model(obj))
                return r[0] if r else None
            mmu.register_scope_providers({"*.t": FQN(), "*.link": by_uid_u, "*.links": by_uid_u})
            _S["mm-user"] = mmu
        return _S["mm-user"]
    if "mm" not in _S:
        from textx import metamodel_from_str
        from textx.scoping.providers import FQN
        from textx import get_model, get_children

        mm = metamodel_from_str(GRAMMAR)

        def by_uid(obj, attr, obj_ref):
            uid = int(obj_ref.obj_name)
            r = get_children(lambda x: getattr(x, "uid", None) == uid, get_model(obj))
            return r[0] if r else None

        mm.register_scope_providers({"*.t": FQN(), "*.link": by_uid, "*.links": by_uid})
        _S["mm"] = mm
    return _S["mm"]


def obj_at(m, path):
    o = m
    for i in path:
        kids = sorted(list(o.packages) + list(o.classes), key=lambda x: x._tx_position)
        o = kids[i]
    return o


def run_case(f, link, refsite, parts, target, user=False):
    from textx.exceptions import TextXSemanticError

    mm = world(user)
    ids = {p: i + 1 for i, (p, k, n) in enumerate(flatten(f))}
    reftext = {"Class": "rc", "Package": "rp", "Named": "rn"}[target] + " " + ".".join(parts)
    text = render(f, ids, link, refsite, reftext)
    exp = expected(f, refsite, parts, target)
    obs = {"text": text, "expected_path": exp}
    try:
        m = mm.model_from_str(text)
    except TextXSemanticError as e:
        obs["observed"] = "error: " + e.message
        return exp is None and e.err_type == "Unknown object", obs
    except Exception as e:
        obs["observed"] = "%s: %s" % (type(e).__name__, e)
        return False, obs
    holder = obj_at(m, refsite)
    got = holder.refs[0].t
    if exp is None:
        obs["observed"] = "resolved to uid %s" % getattr(got, "uid", got)
        return False, obs
    want = obj_at(m, exp)
    obs["observed"] = "uid %s" % getattr(got, "uid", got)
    obs["expected_uid"] = want.uid
    return got is want, obs


def work(arg):
    fs, with_links = arg
    u = Unit()
    texts = [p for n in (1, 2, 3) for p in itertools.product(NAMES, repeat=n)]
    for f in fs:
        nodes = list(flatten(f))
        sites = [()] + [p for p, k, n in nodes if k == "p"]
        links = [None]
        if with_links:
            links += [(a[0], b[0]) for a in nodes for b in nodes]
            if len(nodes) <= 3:
                links += [(a[0], b[0], "list") for a in nodes for b in nodes]
        for link in links:
            for site in sites:
                for parts in texts:
                    for target in ("Class", "Package", "Named"):
                        cid = [f, link, site, parts, target]
                        with watchdog(10):
                            ok, obs = run_case(f, link, site, parts, target)
                        if ok and link is None and len(nodes) <= 3:
                            # the same with user classes whose instances are falsy (containers without members)
                            with watchdog(10):
                                ok, obs = run_case(f, link, site, parts, target, True)
                            obs["user_classes_with_len"] = True
                            cid = cid + ["falsy user classes"]
                        elif ok and link is not None and len(nodes) <= 3:
                            # user classes that keep the linked object once more in an attribute the grammar does not know
                            with watchdog(10):
                                ok, obs = run_case(f, link, site, parts, target, "extra")
                            obs["user_classes_with_len"] = "extra"
                            cid = cid + ["user classes with an own attribute"]
                        u.case(cid, nontrivial=True, sample=obs if link and len(parts) > 1 and obs["expected_path"] else None)
                        u.count("expected:" + ("resolve" if obs["expected_path"] is not None else "unknown"))
                        if not ok:
                            key = classify(f, link, site, parts, target, obs)
                            u.fail(cid, {"forest": f, "link": link, "site": site, "parts": parts, "target": target, "user": obs.get("user_classes_with_len", False)}, key=key,
                                   sig=("user classes %s" % obs.get("user_classes_with_len")) if obs.get("user_classes_with_len") else None,
                                   what="%s expected %s observed %s" % (obs["text"], obs.get("expected_uid", obs["expected_path"]), obs["observed"]))
    return u


def classify(f, link, site, parts, target, obs):
    return None


def tup(x):
    return tuple(tup(i) for i in x) if isinstance(x, (list, tuple)) else x


# ---- history family: the name leads into a FINISHED model (loaded earlier, kept by the global repository) ---------------
FIN_GRAMMAR = GRAMMAR.replace("Model: (", "Model: imports*=Import (").replace("Named: Package | Class;", "Named: Package | Class;\nImport: 'import' importURI=STRING;")


def run_finished(f, link, parts, target):
    """lib.m (forest with a link, user classes that keep the linked object in an attribute of their own) is loaded first; then main.m imports it and
    refers into it: objects of a finished model are plain Python objects, the provider must still follow containment only"""
    import os

    from mc import core
    from textx import get_children, get_model, metamodel_from_str
    from textx.exceptions import TextXSemanticError
    from textx.scoping.providers import FQNImportURI

    assert "imports*=Import" in FIN_GRAMMAR and "Import:" in FIN_GRAMMAR
    mm = metamodel_from_str(FIN_GRAMMAR, classes=[XPackage, XClass], global_repository=True)

    def by_uid(obj, attr, obj_ref):
        uid = int(obj_ref.obj_name)
        r = get_children(lambda x: getattr(x, "uid", None) == uid, get_model(obj))
        return r[0] if r else None
    mm.register_scope_providers({"*.t": FQNImportURI(), "*.link": by_uid, "*.links": by_uid})
    d = os.path.join(core.rundir(), "c10fin-%d" % os.getpid())
    os.makedirs(d, exist_ok=True)
    ids = {p: i + 1 for i, (p, k, n) in enumerate(flatten(f))}
    lib_text = render(f, ids, link, None, "")
    with open(os.path.join(d, "lib.m"), "w") as fh:
        fh.write(lib_text)
    reftext = {"Class": "rc", "Package": "rp", "Named": "rn"}[target] + " " + ".".join(parts)
    with open(os.path.join(d, "main.m"), "w") as fh:
        fh.write('import "lib.m" ' + reftext)
    exp = expected(f, (), parts, target)
    obs = {"lib.m": lib_text, "main.m": 'import "lib.m" ' + reftext, "expected_path": exp, "history": "lib.m loaded first (global repository)"}
    try:
        lib = mm.model_from_file(os.path.join(d, "lib.m"))
        m = mm.model_from_file(os.path.join(d, "main.m"))
    except TextXSemanticError as e:
        obs["observed"] = "error: " + e.message
        return exp is None and e.err_type == "Unknown object", obs
    except Exception as e:
        obs["observed"] = "%s: %s" % (type(e).__name__, e)
        return False, obs
    got = m.refs[0].t
    obs["observed"] = "uid %s" % getattr(got, "uid", got)
    if exp is None:
        return False, obs
    return got is obj_at(lib, exp), obs


def work_finished(arg):
    u = Unit()
    texts = [p for n in (1, 2, 3) for p in itertools.product(NAMES, repeat=n)]
    for f in arg:
        nodes = list(flatten(f))
        for link in [None] + [(a[0], b[0]) for a in nodes for b in nodes]:
            for parts in texts:
                for target in ("Class", "Package", "Named"):
                    cid = ["finished-model", f, link, parts, target]
                    with watchdog(10):
                        ok, obs = run_finished(f, link, parts, target)
                    u.case(cid, nontrivial=True, sample=obs if link and len(parts) > 1 and obs["expected_path"] else None)
                    u.count("finished-model expected:" + ("resolve" if obs["expected_path"] is not None else "unknown"))
                    if not ok:
                        u.fail(cid, {"finished": True, "forest": f, "link": link, "parts": parts, "target": target}, sig="finished-model",
                               what="lib.m=%r main.m=%r expected %s observed %s" % (obs["lib.m"], obs["main.m"], obs["expected_path"], obs["observed"]))
    return u


def run(ctx):
    if ctx.tier == "quick":
        plan = [(1, True), (2, True), (3, True), (4, False)]
    else:
        plan = [(1, True), (2, True), (3, True), (4, True), (5, False)]
    units = []
    nf = 0
    for n, wl in plan:
        fs = list(trees(n))
        nf += len(fs)
        B = 2 if wl and n >= 4 else 8
        units += [(fs[i:i + B], wl) for i in range(0, len(fs), B)]
    ctx.pmap(work, units)
    fin = [f for n in ((1, 2) if ctx.tier == "quick" else (1, 2, 3)) for f in trees(n)]
    ctx.pmap(work_finished, [fin[i:i + 2] for i in range(0, len(fin), 2)])
    return {
        "finished_model_family": "forests up to %d nodes x every link x every dotted name x target type: lib.m loaded first with a global repository, main.m importing it refers into the finished model" % (2 if ctx.tier == "quick" else 3),
        "rule": "case = (forest, optional link src->dst, container holding the referencing object, dotted name, target type); "
                "plan (nodes, all links?) = %s; every case is a distinct load" % plan,
        "exhaustive": True, "forests": nf,
    }, ["links are resolved by a harness provider keyed by a unique id and appear textually before the FQN reference when the "
        "source node precedes the referencing object",
        "sibling names are unique across packages and classes of one container (precondition of the property)"]


def replay(p):
    link = tup(p["link"]) if p["link"] else None
    if p.get("finished"):
        return run_finished(tup(p["forest"]), link, tup(p["parts"]), p["target"])
    return run_case(tup(p["forest"]), link, tup(p["site"]), tup(p["parts"]), p["target"], p.get("user", False))
