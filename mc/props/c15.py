"""C15 - a failed load leaves nothing behind.

E4 fault-point enumeration: one failing load per failure point - a syntax error at every token, every reference made
unknown, every reference postponed forever, the k-th call of every callback kind (scope provider, object processor,
match processor, model processor, user __init__, pre-ref-resolution callback) raising - crossed with user classes on/off,
one- / two-file models (failure in the main or the imported file) and global repository on/off.
Post-state oracle: after dropping the exception and gc.collect() no instance of any class of the metamodel is alive;
user classes are uninstrumented with empty per-object storage; the repositories are empty; the next load of a valid model
on the same metamodel equals the load on a fresh metamodel, twice.
"""

import gc
import os
import re
import weakref

from mc import core, impl
from mc.core import Unit, watchdog

ID = "C15"
LEVEL = "fault_enumeration"
ENGINE = "E4-fault-points"
TECHNIQUE = "exhaustive fault-point enumeration (dry run counts injection points; one real load per point) with post-state predicates and a differential re-load"
CLAIM = ("For every scenario (user classes on/off, single file / two files, global repository on/off) a dry run counts the tokens, references "
         "and callback invocations; then one load is executed per failure point with the fault injected exactly there. After each failure: no "
         "live instance of the metamodel's classes, classes uninstrumented, no per-object storage, empty repositories, and two subsequent "
         "loads equal to a fresh metamodel's.")
NOTE = "Trusted: gc.get_objects() as the reachability oracle (CPython), the injection wrappers. Only one fault per load (single-fault sequences)."

GRAMMAR = """
Model: imports*=Import items*=Item;
Import: 'import' importURI=STRING;
Item: Node | Leaf;
Node: 'n' name=ID ('->' up=[Item])? '{' items*=Item '}';
Leaf: 'l' name=ID ('->' up=[Item])? (':' val=Val)?;
Val: /\\d+/;
"""
MAIN = "n a -> c { l b -> a : 3 } l c : 5 l d -> b"
LIB = "l libx : 1 l liby -> libx"
MAIN2 = 'import "lib.m" n a -> c { l b -> libx : 3 } l c : 5 l d -> b'


class Injected(Exception):
    pass


class Scenario:
    def __init__(self, user, two, grepo, workdir):
        from textx import metamodel_from_str
        from textx.scoping.providers import PlainNameImportURI, PlainNameGlobalRepo
        from textx.scoping import Postponed

        # grepo == "gr": global repository together with a GlobalRepo provider (models given as strings are registered there too)
        base = PlainNameGlobalRepo if grepo == "gr" else PlainNameImportURI

        self.user, self.two, self.grepo = user, two, grepo
        self.dir = workdir
        self.counts = {}
        self.fault = None  # (kind, k) or ("postpone", refname)
        sc = self

        def tick(kind):
            n = sc.counts.get(kind, 0) + 1
            sc.counts[kind] = n
            if sc.fault == (kind, n):
                raise Injected("%s #%d" % (kind, n))

        class Node:
            def __init__(self, **kw):
                tick("init")
                self.__dict__.update(kw)

        class Leaf:
            def __init__(self, **kw):
                tick("init")
                self.__dict__.update(kw)
        class Model:
            def __init__(self, **kw):
                tick("init")
                self.__dict__.update(kw)
        # user == "root": the root rule has a user class as well (its attributes, _tx_parser included, are collected outside the object while loading)
        self.classes = [Model, Node, Leaf] if user == "root" else [Node, Leaf] if user else []
        kw = {"global_repository": True} if grepo else {}
        self.mm = metamodel_from_str(GRAMMAR, classes=self.classes or None, **kw)

        def oproc(obj):
            tick("objproc")

        def mproc(x):
            tick("matchproc")
            return int(x)

        def modelproc(model, mm):
            tick("modelproc")
        self.mm.register_obj_processors({"Node": oproc, "Leaf": oproc, "Val": mproc})
        self.mm.register_model_processor(modelproc)
        if grepo == "gr":
            with open(os.path.join(workdir, "grlib.m"), "w") as f:
                f.write("l glib : 1")
        pargs = (os.path.join(workdir, "grlib*.m"),) if grepo == "gr" else ()
        inner = base(*pargs)

        class Prov(base):
            def __call__(self, obj, attr, obj_ref):
                tick("provider")
                if sc.fault == ("postpone", obj_ref.obj_name):
                    return Postponed()
                return inner.__call__(obj, attr, obj_ref)
        self.mm.register_scope_providers({"*.*": Prov(*pargs)})

    def load(self, main_text, lib_text=None):
        self.counts = {}

        def cb(m):
            n = self.counts.get("callback", 0) + 1
            self.counts["callback"] = n
            if self.fault == ("callback", n):
                raise Injected("callback")
        if self.two:
            with open(os.path.join(self.dir, "lib.m"), "w") as f:
                f.write(lib_text if lib_text is not None else LIB)
            fn = os.path.join(self.dir, "main.m")
            with open(fn, "w") as f:
                f.write(main_text)
            return self.mm.model_from_file(fn)
        return self.mm.model_from_str(main_text, pre_ref_resolution_callback=cb)

    def live_instances(self):
        names = {"Model", "Node", "Leaf", "Import"}
        n = 0
        for o in gc.get_objects():
            t = type(o)
            if t.__name__ in names and (getattr(t, "_tx_metamodel", None) is self.mm):
                n += 1
        return n

    def class_state(self):
        out = []
        for c in self.classes:
            d = c.__dict__
            out.append((c.__name__, d.get("_tx_instrumented"), len(d.get("_tx_obj_attrs", {})), sorted(k for k in d if k.startswith("_tx_real")),
                        [m for m in ("__setattr__", "__getattribute__", "__delattr__") if m in d]))
        return out

    def repo_state(self):
        if hasattr(self.mm, "_tx_model_repository"):
            return sorted(os.path.basename(str(k)) for k in self.mm._tx_model_repository.all_models.filename_to_model)
        return []


def dump_all(sc, m):
    out = [impl.dump_impl_refs(m)] if hasattr(impl, "dump_impl_refs") else [simple_dump(m)]
    return out


def simple_dump(m):
    def d(o, depth=0):
        if hasattr(type(o), "_tx_attrs") or type(o).__name__ in ("Node", "Leaf"):
            r = {"cls": type(o).__name__}
            for k in ("name", "val"):
                if hasattr(o, k):
                    r[k] = getattr(o, k)
            if hasattr(o, "up"):
                r["up"] = getattr(getattr(o, "up"), "name", None)
            if hasattr(o, "items"):
                r["items"] = [d(x, depth + 1) for x in o.items]
            return r
        return repr(o)
    return d(m)


def fault_points(user, two):
    """list of (label, fault, main_text, lib_text) for a scenario; callback counts come from a dry run"""
    sc = Scenario(user, two, False, core.rundir() if not two else os.path.join(core.rundir(), "c15-dry-%d" % os.getpid()))
    if two:
        os.makedirs(sc.dir, exist_ok=True)
    main = MAIN2 if two else MAIN
    sc.load(main)
    counts = dict(sc.counts)
    pts = []
    for kind, n in sorted(counts.items()):
        for k in range(1, n + 1):
            pts.append(("%s#%d" % (kind, k), (kind, k), main, None))
    toks = main.split(" ")
    for i in range(len(toks)):
        pts.append(("syntax: drop token %d" % i, None, " ".join(toks[:i] + toks[i + 1:]), None))
        pts.append(("syntax: garbage before token %d" % i, None, " ".join(toks[:i] + ["%%"] + toks[i:]), None))
    for m in re.finditer(r"-> (\w+)", main):
        pts.append(("unknown reference %s" % m.group(1), None, main[:m.start(1)] + "zz" + main[m.end(1):], None))
        pts.append(("postponed forever %s" % m.group(1), ("postpone", m.group(1)), main, None))
    if two:
        lt = LIB.split(" ")
        for i in range(len(lt)):
            pts.append(("lib syntax: drop token %d" % i, None, main, " ".join(lt[:i] + lt[i + 1:])))
        pts.append(("lib unknown reference", None, main, LIB.replace("-> libx", "-> zz")))
        pts.append(("lib missing definition used by main", None, main, "l liby"))
    del sc
    gc.collect()
    return counts, pts


def run_point(user, two, grepo, label, fault, main_text, lib_text):
    d = os.path.join(core.rundir(), "c15-%d" % os.getpid())
    os.makedirs(d, exist_ok=True)
    sc = Scenario(user, two, grepo, d)
    gc.collect()
    sc.fault = fault
    outcome = "loaded"
    try:
        m = sc.load(main_text, lib_text)
        del m
    except Exception as e:
        outcome = type(e).__name__
        del e
    sc.fault = None
    gc.collect()
    obs = {"scenario": {"user_classes": user, "two_files": two, "global_repository": grepo}, "point": label, "outcome": outcome}
    if outcome == "loaded":
        # the mutation did not make the load fail (e.g. dropping an optional token): nothing to check for C15
        if sc.grepo:
            sc.mm._tx_model_repository.all_models.filename_to_model.clear()
        return True, obs, False
    bad = []
    live = sc.live_instances()
    if live:
        bad.append(("live instances after failure", live))
    cs = sc.class_state()
    if any(c[1] is not None or c[2] or c[3] or c[4] for c in cs):
        bad.append(("user class state", cs))
    rs = sc.repo_state()
    if rs:
        bad.append(("repository not empty", rs))
    # differential re-load: same metamodel vs fresh metamodel, twice
    fresh = Scenario(user, two, grepo, d)
    main = MAIN2 if two else MAIN
    for rnd in (1, 2):
        try:
            a = simple_dump(sc.load(main))
        except Exception as e:
            a = "%s: %s" % (type(e).__name__, str(e).replace(d, "<tmp>"))
        try:
            b = simple_dump(fresh.load(main))
        except Exception as e:
            b = "%s: %s" % (type(e).__name__, str(e).replace(d, "<tmp>"))
        if a != b:
            bad.append(("reload %d differs from fresh metamodel" % rnd, a, b))
            break
    obs["failures"] = bad[:3]
    return not bad, obs, True


def work(arg):
    user, two, grepo, pts = arg
    u = Unit()
    for label, fault, main_text, lib_text in pts:
        cid = [user, two, grepo, label]
        with watchdog(30):
            ok, obs, failed_load = run_point(user, two, grepo, label, fault, main_text, lib_text)
        u.case(cid, nontrivial=failed_load, sample=obs if failed_load else None)
        u.count("outcome:" + obs["outcome"])
        if not ok:
            u.fail(cid, {"user": user, "two": two, "grepo": grepo, "label": label, "fault": fault, "main": main_text, "lib": lib_text},
                   sig="%s | %s" % (obs["failures"][0][0], label.split("#")[0].split(" ")[0]),
                   what="%s point=%s outcome=%s :: %s" % (obs["scenario"], label, obs["outcome"], str(obs["failures"][:2])[:400]))
    return u


def run(ctx):
    units = []
    total = {}
    for user in (False, True, "root"):
        for two in (False, True):
            counts, pts = fault_points(user, two)
            total["user=%s two_files=%s" % (user, two)] = {"callback_calls": counts, "points": len(pts)}
            for grepo in ((False, True) if two else (False, "gr")):
                B = 6
                units += [(user, two, grepo, pts[i:i + B]) for i in range(0, len(pts), B)]
    ctx.pmap(work, units)
    return {
        "rule": "case = (scenario, failure point); failure points = every callback invocation counted by a dry run (k-th call raises), every token "
                "dropped / preceded by garbage, every reference renamed to an unknown name or postponed forever, and for two-file scenarios the same in "
                "the imported file; non-trivial = the load actually failed at that point",
        "exhaustive": True, "scenarios": total,
    }, ["single-fault sequences only; gc.get_objects() finds every live container object (CPython)"]


def replay(p):
    ok, obs, _ = run_point(p["user"], p["two"], p["grepo"], p["label"], tuple(p["fault"]) if p["fault"] else None, p["main"], p["lib"])
    return ok, obs
