"""C04 - built-in base types convert text to values faithfully.

E1, exhaustive over small alphabets: every string up to length L over {a, space, ", ', \\, newline}
not ending in a backslash, in both quote styles, alone and as ordered pairs on one line; every
signed int literal over digits {0,1,9} up to 4 digits; every float literal form; all BOOL spellings.
Oracle: Python's own int()/float() and string equality, with exact result type.
"""

import itertools

from mc import core
from mc.core import Unit, watchdog

ID = "C04"
LEVEL = "exploration"
ENGINE = "E1-bounded-exhaustive-inputs"
TECHNIQUE = "exhaustive enumeration of literals over small alphabets through the real base-type rules; oracle = Python int()/float()/str equality"
CLAIM = ("Every string over the 6-character alphabet up to the length bound (both quote styles, singly and in every ordered pair on one "
         "line), every signed decimal int literal up to 4 digits over {0,1,9}, every float literal shape (int part, '.', fraction, exponent "
         "with sign) and all BOOL spellings are parsed by the real STRING/INT/FLOAT/STRICTFLOAT/NUMBER/BOOL rules and compared with the "
         "value and exact Python type the statement prescribes. Exhaustive within the bound.")
NOTE = ("Random long / unicode strings and random floats named in the quantifier are sampling (another technique family) and are not "
        "covered; only the bounded exhaustive part is decided. Trusted: Python's int() and float().")

ALPHA = ["a", " ", '"', "'", "\\", "\n"]
_MM = {}


# meta-model options under which the conversions must be the same ("" = defaults)
CONFIGS = {"": {}, "use_regexp_group": {"use_regexp_group": True}, "ignore_case+autokwd": {"ignore_case": True, "autokwd": True},
           "memoization": {"memoization": True}, "no-auto-init": {"auto_init_attributes": False}}


def mm(rule, many=False, cfg=""):
    key = (rule, many, cfg)
    if key not in _MM:
        from textx import metamodel_from_str

        _MM[key] = metamodel_from_str("Model: v%s%s;" % ("*=" if many else "=", rule), **CONFIGS[cfg])
    return _MM[key]


def quote(s, q):
    return q + s.replace(q, "\\" + q) + q


def strings(L):
    for n in range(L + 1):
        for t in itertools.product(ALPHA, repeat=n):
            s = "".join(t)
            if not s.endswith("\\"):
                yield s


def load(rule, text, many=False, cfg=""):
    try:
        m = mm(rule, many, cfg).model_from_str(text)
        return ("ok", m.v)
    except Exception as e:
        return ("err", "%s: %s" % (type(e).__name__, str(e)[:120]))


def check_strings(ss, quotes, cfg=""):
    text = " ".join(quote(s, q) for s, q in zip(ss, quotes))
    st, v = load("STRING", text, many=True, cfg=cfg)
    ok = st == "ok" and v == list(ss) and all(type(x) is str for x in v)
    return ok, {"rule": "STRING", "options": CONFIGS[cfg], "text": text, "expected": list(ss), "observed": v}


def check_num(rule, text, expected, cfg=""):
    st, v = load(rule, text, cfg=cfg)
    ok = st == "ok" and type(v) is type(expected) and v == expected
    return ok, {"rule": rule, "options": CONFIGS[cfg], "text": text, "expected": repr(expected), "observed": repr(v)}


def int_literals():
    for sign in ("", "+", "-"):
        for n in range(1, 5):
            for d in itertools.product("019", repeat=n):
                yield sign + "".join(d)


def float_literals(tier):
    ints = ["", "0", "1", "19", "007"]
    fracs = [None, "", "0", "5", "09", "125"]  # None = no '.'
    exps = [None] + [e + s + d for e in "eE" for s in ("", "+", "-") for d in (["0", "3", "12"] if tier == "quick" else ["0", "1", "3", "9", "12", "05", "30"])]
    for sign in ("", "+", "-"):
        for ip in ints:
            for fr in fracs:
                for ex in exps:
                    if fr is None and ex is None:
                        continue  # would be an int literal
                    if ip == "" and (fr is None or fr == ""):
                        continue  # no digits in the mantissa
                    yield sign + ip + ("" if fr is None else "." + fr) + (ex or "")


def unit_strings(arg):
    kind, items = arg
    cfg = kind.split("@")[1] if "@" in kind else ""
    u = Unit()
    for ss, quotes in items:
        cid = [kind, list(ss), list(quotes)]
        with watchdog(10):
            ok, obs = check_strings(ss, quotes, cfg)
        u.case(cid, nontrivial=any(c in s for s in ss for c in "\"'\\\n"), sample=obs if len(ss) > 1 else None)
        u.count(kind)
        if not ok:
            u.fail(cid, {"kind": "strings", "ss": list(ss), "quotes": list(quotes), "cfg": cfg}, sig="strings " + cfg, what=repr(obs)[:300])
    return u


def unit_nums(arg):
    cfg, items = arg
    u = Unit()
    for rule, text in items:
        if rule == "BOOL":
            expected = text in ("True", "true", "1")
        elif rule in ("INT", "NUMBER-int"):
            expected = int(text)
        else:
            expected = float(text)
        r = rule.split("-")[0]
        cid = [rule, text, cfg]
        with watchdog(10):
            ok, obs = check_num(r, text, expected, cfg)
        u.case(cid, nontrivial=True, sample=obs)
        u.count(rule + ("@" + cfg if cfg else ""))
        if not ok:
            u.fail(cid, {"kind": "num", "rule": r, "text": text, "expected": repr(expected), "cfg": cfg}, sig="%s %s" % (rule, cfg), what=repr(obs)[:300])
    return u


REREG = {"INT": ("-019", -19), "FLOAT": ("-1.5e1", -15.0), "STRICTFLOAT": ("2.", 2.0), "NUMBER": ("7", 7), "BOOL": ("false", False), "STRING": ('"a\\"b"', 'a"b')}


def unit_rereg(arg):
    """history: a base-type processor is overridden, then the registration is replaced by one without it; the documented
    behaviour ('registration of new object processors will replace previous') brings the default conversion back -
    on the same meta-model and on a meta-model created afterwards"""
    from textx import metamodel_from_str

    u = Unit()
    for rule in arg:
        text, expected = REREG[rule]
        for second in ({}, {"Model": lambda m: None}):
            cid = ["re-registration", rule, sorted(second)]
            mm1 = metamodel_from_str("Model: v=%s;" % rule)
            mm1.register_obj_processors({rule: lambda x: "OVERRIDDEN"})
            first = mm1.model_from_str(text).v
            mm1.register_obj_processors(second)
            again = mm1.model_from_str(text).v
            fresh = metamodel_from_str("Model: v=%s;" % rule).model_from_str(text).v
            obs = {"rule": rule, "text": text, "with_override": repr(first), "after_re_registration": repr(again), "fresh_metamodel": repr(fresh), "expected": repr(expected)}
            ok = first == "OVERRIDDEN" and all(type(v) is type(expected) and v == expected for v in (again, fresh))
            u.case(cid, nontrivial=True, sample=obs)
            u.count("re-registration")
            if not ok:
                u.fail(cid, {"kind": "rereg", "rule": rule}, sig="re-registration " + rule, what=repr(obs))
    return u


ROOT_LOADERS = ["str", "file", "file+global_repository", "file+FQNImportURI", "file+PlainNameGlobalRepo", "file+FQNGlobalRepo"]
ROOT_LITERALS = {"INT": [("-42", -42), ("007", 7)], "FLOAT": [("1.5e3", 1500.0)], "STRICTFLOAT": [("2.", 2.0)], "NUMBER": [("7", 7), ("7.5", 7.5)],
                 "BOOL": [("true", True), ("0", False)], "STRING": [('"abc"', "abc"), ("'a\\'b'", "a'b"), ('""', "")]}


def root_case(rule, text, expected, loader, good=True):
    """the base type is the ROOT rule: the model IS the Python value, whichever way it is loaded"""
    import os

    from textx import metamodel_from_str
    from textx.exceptions import TextXSyntaxError
    from textx.scoping import GlobalModelRepository, providers

    mm_ = metamodel_from_str("Model: %s;" % rule, global_repository=(loader == "file+global_repository"))
    for pn in ("FQNImportURI", "PlainNameGlobalRepo", "FQNGlobalRepo"):
        if loader == "file+" + pn:
            mm_.register_scope_providers({"*.*": getattr(providers, pn)()})
    obs = {"root_rule": rule, "text": text, "loader": loader, "expected": repr(expected) if good else "TextXSyntaxError"}
    try:
        if loader == "str":
            v = mm_.model_from_str(text)
        else:
            fn = os.path.join(core.rundir(), "c04root-%d.m" % os.getpid())
            with open(fn, "w") as f:
                f.write(text)
            kw = {"pre_ref_resolution_callback": None}
            if loader == "file+caller-repository":
                v = mm_.internal_model_from_file(fn, pre_ref_resolution_callback=lambda m: setattr(m, "_tx_model_repository", GlobalModelRepository()) if hasattr(m, "_tx_metamodel") else None)
            else:
                v = mm_.model_from_file(fn)
        obs["observed"] = repr(v)
        return good and type(v) is type(expected) and v == expected, obs
    except TextXSyntaxError as e:
        obs["observed"] = "TextXSyntaxError"
        return not good, obs
    except Exception as e:
        obs["observed"] = "%s: %s" % (type(e).__name__, str(e)[:150])
        return False, obs


def unit_root(arg):
    u = Unit()
    for rule in arg:
        for text, expected in ROOT_LITERALS[rule]:
            for loader in ROOT_LOADERS:
                for good in (True, False):
                    t = text if good else text + " ?"
                    cid = ["root", rule, t, loader]
                    ok, obs = root_case(rule, t, expected, loader, good)
                    u.case(cid, nontrivial=True, sample=obs if loader != "str" else None)
                    u.count("root-rule:" + loader)
                    if not ok:
                        u.fail(cid, {"kind": "root", "rule": rule, "text": t, "expected": repr(expected), "loader": loader, "good": good},
                               sig="root %s %s" % (loader, good), what=repr(obs))
    return u


def chunks(it, n):
    it = list(it)
    return [it[i:i + n] for i in range(0, len(it), n)]


def run(ctx):
    L1, L2 = (5, 2) if ctx.tier == "quick" else (8, 3)
    singles = [((s,), (q,)) for s in strings(L1) for q in "\"'"]
    short = list(strings(L2))
    pairs = [((a, b), (qa, qb)) for a in short for b in short for qa in "\"'" for qb in "\"'"]
    units = [("single", c) for c in chunks(singles, 500)] + [("pair", c) for c in chunks(pairs, 500)]
    small = [((s,), (q,)) for s in strings(3) for q in "\"'"]
    for cfg in CONFIGS:
        if cfg:
            units += [("single@" + cfg, c) for c in chunks(small, 500)]
    ctx.pmap(unit_strings, units)
    nums = [("INT", t) for t in int_literals()] + [("NUMBER-int", t) for t in int_literals()]
    fl = list(float_literals(ctx.tier))
    for rule in ("FLOAT", "STRICTFLOAT", "NUMBER"):
        nums += [(rule, t) for t in fl]
    nums += [("BOOL", t) for t in ("True", "true", "False", "false", "0", "1")]
    ctx.pmap(unit_nums, [(cfg, c) for cfg in CONFIGS for c in chunks(nums, 500)])
    ctx.pmap(unit_rereg, [[r] for r in REREG])
    ctx.pmap(unit_root, [[r] for r in ROOT_LITERALS])
    return {
        "rule": "strings: all over %r up to length %d singly (x2 quote styles) and all ordered pairs up to length %d (x4 quote styles) on one line; "
                "ints: sign x 1-4 digits over 019 through INT and NUMBER; floats: sign x int part x optional fraction x optional exponent through "
                "FLOAT, STRICTFLOAT, NUMBER; BOOL: 6 spellings; all numbers and all strings up to length 3 again under each option set of "
                "metamodel_options. non-trivial for strings = contains a quote, backslash or newline" % (ALPHA, L1, L2),
        "exhaustive": True, "float_literals": len(fl), "metamodel_options": CONFIGS,
    }, ["strings ending in a backslash are excluded by the property statement", "float literals are finite by construction (exponent <= 30)"]


def replay(p):
    if p["kind"] == "rereg":
        u = unit_rereg([p["rule"]])
        return not u.fails, {"failures": [f["what"] for f in u.fails]}
    if p["kind"] == "root":
        return root_case(p["rule"], p["text"], eval(p["expected"]), p["loader"], p["good"])
    if p["kind"] == "strings":
        return check_strings(tuple(p["ss"]), tuple(p["quotes"]), p.get("cfg", ""))
    exp = eval(p["expected"])
    return check_num(p["rule"], p["text"], exp, p.get("cfg", ""))
