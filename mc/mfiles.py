"""Shared harness for multi-file model properties (C17, C18, C27): import digraphs over a few model files."""

import builtins
import os

GRAMMAR = """
Model: imports*=Import defs*=Def refs*=Ref;
Import: 'import' importURI=STRING;
Def: 'def' name=ID ('!' flag=ID)?;
Ref: 'ref' name=ID '->' target=[Def];
"""
GRAMMAR_RREL = GRAMMAR.replace("target=[Def]", "target=[Def:ID|+m:defs]")


def graphs(n):
    """all import digraphs over n files as tuple of tuples: g[i] = sorted list of files imported by file i (self imports allowed)"""
    bits = [(i, j) for i in range(n) for j in range(n)]
    for mask in range(2 ** len(bits)):
        g = [[] for _ in range(n)]
        for k, (i, j) in enumerate(bits):
            if mask >> k & 1:
                g[i].append(j)
        yield tuple(tuple(x) for x in g)


def closure(g, root=0):
    seen, todo = {root}, [root]
    while todo:
        i = todo.pop()
        for j in g[i]:
            if j not in seen:
                seen.add(j)
                todo.append(j)
    return sorted(seen)


def file_text(g, i, extra_refs=(), broken=None):
    """file i: imports, def d<i>, def common, refs to d<j> of every directly imported j, to own d<i> and to 'common'"""
    lines = ['import "f%d.m"' % j for j in g[i]]
    lines.append("def d%d" % i)
    lines.append("def common")
    if broken == "procfail":
        lines.append("def boom")
    if broken == "modelproc":
        lines.append("def failmodel")
    for j in sorted(set(g[i]) | {i}):
        lines.append("ref r%d_%d -> d%d" % (i, j, j))
    lines.append("ref rc%d -> common" % i)
    for name, target in extra_refs:
        lines.append("ref %s -> %s" % (name, target))
    if broken == "syntax":
        lines.append("def")
    if broken == "unresolved":
        lines.append("ref bad%d -> nosuchdef" % i)
    return "\n".join(lines) + "\n"


def write_files(d, g, broken=None, extra=None):
    """broken: (file index, kind) or None"""
    for i in range(len(g)):
        with open(os.path.join(d, "f%d.m" % i), "w") as f:
            f.write(file_text(g, i, extra_refs=(extra or {}).get(i, ()), broken=broken[1] if broken and broken[0] == i else None))


class OpenCounter:
    """counts how often textX opens each model file (module-attribute injection of `open`)"""

    def __init__(self):
        self.counts = {}

    def __enter__(self):
        import textx.metamodel
        import textx.model

        self.mods = [textx.metamodel, textx.model]
        counter = self

        def counting_open(file, *a, **k):
            counter.counts[os.path.basename(str(file))] = counter.counts.get(os.path.basename(str(file)), 0) + 1
            return builtins.open(file, *a, **k)
        for m in self.mods:
            m.open = counting_open
        return self

    def __exit__(self, *a):
        for m in self.mods:
            if "open" in m.__dict__:
                del m.open
        return False


def make_mm(provider, grepo=False, builtin=False):
    from textx import metamodel_from_str
    from textx.scoping import providers as P

    kw = {}
    if grepo:
        kw["global_repository"] = True
    mm = metamodel_from_str(GRAMMAR_RREL if provider == "rrel" else GRAMMAR, **kw)
    if provider == "plain":
        mm.register_scope_providers({"*.*": P.PlainNameImportURI()})
    elif provider == "fqn":
        mm.register_scope_providers({"*.*": P.FQNImportURI()})
    elif provider == "plain-searchpath":
        mm.register_scope_providers({"*.*": P.PlainNameImportURI(search_path=[])})
    elif provider == "fqn-searchpath":
        mm.register_scope_providers({"*.*": P.FQNImportURI(search_path=[])})
    elif provider == "plain-glob":
        mm.register_scope_providers({"*.*": P.PlainNameImportURI(glob_args={"recursive": True})})
    if builtin:
        from textx.scoping import ModelRepository

        bmm = metamodel_from_str(GRAMMAR)
        bm = bmm.model_from_str("def common def builtinonly")
        repo = ModelRepository()
        repo.add_model(bm)
        mm.builtin_models = repo
        mm._verif_builtin = bm
    return mm
