"""./check <ID> [--tier quick|thorough] [--replay path]"""

import argparse
import importlib
import json
import os
import sys

from mc import core


def main(argv=None):
    ap = argparse.ArgumentParser()
    ap.add_argument("prop")
    ap.add_argument("--tier", default=os.environ.get("VERIF_TIER", "quick"), choices=["quick", "thorough"])
    ap.add_argument("--replay")
    ap.add_argument("--seed", type=int, default=int(os.environ.get("VERIF_SEED", "0") or 0))
    a = ap.parse_args(argv)
    mod = importlib.import_module("mc.props.%s" % a.prop.lower())
    if a.replay:
        with open(a.replay) as f:
            rec = json.load(f)
        ok1, obs1 = mod.replay(rec["payload"])
        ok2, obs2 = mod.replay(rec["payload"])
        if json.dumps(obs1, sort_keys=True, default=str) != json.dumps(obs2, sort_keys=True, default=str):
            print("REPLAY-NONDETERMINISTIC property=%s replay=%s" % (mod.ID, a.replay))
            print(json.dumps(obs1, default=str)[:2000])
            print(json.dumps(obs2, default=str)[:2000])
            return 3
        print(json.dumps(obs1, indent=1, default=str)[:6000])
        if ok1:
            print("replay: property holds on this case")
            return 0
        print("VIOLATION property=%s replay=%s" % (mod.ID, a.replay))
        return 1
    ctx = core.Ctx(mod, a.tier, a.seed)
    try:
        coverage, assumptions = mod.run(ctx)
    except core.HarnessError as e:
        sys.stderr.write("HARNESS ERROR (not a property verdict): %s\n" % e)
        return 3
    finally:
        core.rmwork(ctx.workdir)
    return ctx.finish(coverage, assumptions)


if __name__ == "__main__":
    sys.exit(main())
