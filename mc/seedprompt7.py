"""Wave 7 prompt: one change per sub-agent (short final wave)."""
import json, sys
pid = sys.argv[1]
wave = sys.argv[2] if len(sys.argv) > 2 else ""
for l in open('/verif/properties.jsonl'):
    p = json.loads(l)
    if p['id'] == pid:
        break
wt = "/tmp/seed%s-%s" % (wave, pid)
out = "/tmp/seedout%s" % wave
extra5 = ("\n- The code was repaired in many places recently (about a hundred small fixes: clean-up after failures, identity instead of equality, handling of plain-value models, nested loads, separators that a repetition gave back, qualified grammar names, the registry, the CLI, exports). Aim each change at one of those REPAIRS or at code next to them: read `git log --oneline | grep fix:` and `git show <commit>` for a few fixes that concern this property, and make a change that quietly undoes or weakens such a repair for some inputs only (a condition narrowed or widened, a guard moved, a helper called in one place less), or breaks the interplay of two repairs. The two changes must concern different repairs.")
extra = extra5 if wave == "5" else ("\n- Prefer places that are NOT the first that come to mind for this property: the property is usually implemented by several cooperating functions and files (including caches, clean-up paths, helper modules, the CLI, less common API entry points and options); pick one." if wave == "2" else "\n- The change may not sit in the function that most obviously implements this property. Prefer changes that only manifest in interaction with a meta-model option or feature (ignore_case, autokwd, memoization, skipws / ws, use_regexp_group, auto_init_attributes, textx_tools_support, global_repository, builtin models / builtins, user classes, object/model processors, grammar imports, rule modifiers, repetition modifiers) or with multi-step usage (several loads with one meta-model, several meta-models in one process, a failed load followed by a good one)." if wave else "")
print(f"""You are helping test a verification harness for the Python library textX (a meta-language that compiles Xtext-like grammars into Arpeggio PEG parsers plus dynamic metamodel classes, and builds linked object models with scoping).

You have your own scratch git worktree of the textX repository at {wt} (work ONLY there; never touch /repo or /verif, and do not read anything under /verif). Python is /venv/bin/python. To make sure your worktree's sources are imported, run things as: cd {wt} && PYTHONPATH={wt} /venv/bin/python ...

Here is a semantic property that textX is supposed to satisfy:

  Title: {p['title']}
  Statement: {p['statement']}
  Quantified over: {p['quantifier']['text']}

Your task: produce ONE realistic change (mutation) to the textX source under {wt}/textx/ that BREAKS this property, while the code still imports and the existing test suite still gives exactly the same result as before. The unchanged tree gives '27 failed, 313 passed' with:
  cd {wt} && PYTHONPATH={wt} /venv/bin/python -m pytest -q -p no:cacheprovider --timeout=900 --continue-on-collection-errors 2>&1 | tail -3
(the 27 failures are pre-existing, caused by missing entry-point registrations in this sandbox; with your change the same 313 tests must still pass and no additional test may fail).

Requirements for the change:
- It should look like a plausible bug a maintainer could introduce (a refactoring slip, a wrong condition, a cache or state shared where it should not be, an off-by-one in position/cursor logic, a cleanup forgotten on one path, an ordering change), not sabotage such as raising an exception unconditionally.
- It must need something SPECIFIC to manifest: an unusual input shape, a particular multi-step sequence of operations, a failure at a particular point, a particular schedule of postponed resolutions, or two cooperating sites that each look fine alone. Changes that ordinary use would expose at once (and that the existing tests therefore catch) are not wanted.
- Keep the change small (a few lines).{extra}
- Write a demonstration: a small stand-alone Python script that exits 0 on the unchanged tree and exits non-zero (assertion failure) with the change applied, and that demonstrates a violation of the property as stated above (not of something else).

Deliverables, written to {out}/{pid}/a/ (create the directory):
  patch.diff   - output of `git -C {wt} diff` for that change alone (relative to the unchanged tree)
  demo.py      - the demonstration script (runnable as: cd <tree> && PYTHONPATH=<tree> /venv/bin/python demo.py)
  notes.txt    - 3-6 lines: what the change is, what is needed for it to manifest, and the last line of the pytest run with the change applied
Make the change, run the full test suite, run the demo with and without it (never use git stash - the stash is shared between worktrees; switch with `git -C {wt} diff > file`, `git -C {wt} checkout -- .` and `git -C {wt} apply file`), save the deliverables, then revert with `git -C {wt} checkout -- .`. Leave the worktree clean (no modifications) at the end. Do not commit anything. You have about 15 minutes: run the full test suite once only, at the end. Reply with a short summary of the change.""")
