"""Implementation side of the differential: run the real textX on (grammar text, config, input)."""

from mc.core import watchdog, CaseTimeout


def make_mm(gtext, cfg):
    from textx import metamodel_from_str

    return metamodel_from_str(gtext, **cfg)


def dump_impl(v, depth=0):
    if depth > 50:
        return "<deep>"
    cls = type(v)
    if hasattr(cls, "_tx_attrs") and not isinstance(v, (str, int, float, bool)):
        return {"cls": cls.__name__, "attrs": {k: dump_impl(getattr(v, k, "<missing>"), depth + 1) for k in sorted(cls._tx_attrs)}}
    if isinstance(v, list):
        return [dump_impl(x, depth + 1) for x in v]
    if isinstance(v, bool):
        return ["bool", v]
    if isinstance(v, int):
        return ["int", v]
    if isinstance(v, float):
        return ["float", repr(v)]
    if v is None:
        return None
    if isinstance(v, str):
        return ["str", v]
    return ["?", repr(v)]


def load(mm, text, timeout=5, _retry=True):
    """-> ("accept", dump, model) | ("reject", (line, col), None) | ("semantic", msg, None) | ("crash", msg, None)
    A timeout is only reported if it repeats with a 6x larger budget (stalls of the sandbox are not hangs)."""
    from textx.exceptions import TextXSyntaxError, TextXSemanticError

    try:
        with watchdog(timeout):
            m = mm.model_from_str(text)
        return "accept", dump_impl(m), m
    except TextXSyntaxError as e:
        return "reject", (e.line, e.col), None
    except TextXSemanticError as e:
        return "semantic", "%s [%s]" % (e.message, e.err_type), None
    except CaseTimeout as e:
        if _retry:
            return load(mm, text, timeout * 6, _retry=False)
        return "crash", "timeout (hang) at " + str(e)[-700:], None
    except RecursionError:
        return "crash", "RecursionError", None
    except Exception as e:
        return "crash", "%s: %s" % (type(e).__name__, e), None
