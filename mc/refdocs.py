"""Self-validation of RefPEG: worked examples of docs/src/grammar.md encoded as (grammar AST, input, documented result).
RefPEG alone must reproduce them; a failure here is a harness problem and aborts the check (never a VIOLATION)."""

from mc import refpeg

L = lambda s: ("lit", s)
REF = lambda n: ("ref", n)
A = lambda attr, op, rhs, sep=None, eol=False: ("asg", attr, op, rhs, sep, eol)
SEQ = lambda *x: ("seq", tuple(x))
ALT = lambda *x: ("alt", tuple(x))

REJECT = "REJECT"

EXAMPLES = []


def ex(name, grammar, cases, **cfg):
    EXAMPLES.append((name, grammar, cases, cfg))


def obj(cls, **attrs):
    return {"cls": cls, "attrs": {k: v for k, v in sorted(attrs.items())}}


S = lambda s: ["str", s]
I = lambda i: ["int", i]
Bo = lambda b: ["bool", b]

ex("colors*", [("Colors", {}, ("star", ALT(L("red"), L("green"), L("blue")), None, False))],
   [("red blue green", S("redbluegreen")), ("red blue blue red red green", S("redblueblueredredgreen")), ("", S("")), ("red x", REJECT)])
ex("colors+", [("Colors", {}, ("plus", ALT(L("red"), L("green"), L("blue")), None, False))], [("", REJECT), ("blue", S("blue"))])
ex("unordered", [("Colors", {}, ("ugrp", (L("red"), L("green"), L("blue")), None, False))],
   [("red blue green", S("redbluegreen")), ("blue green red", S("bluegreenred")), ("red blue red green", REJECT), ("blue green", REJECT)])
ex("modifier#", [("Modifier", {}, ("ugrp", (A("static", "?=", L("static")), A("final", "?=", L("final")), A("visibility", "=", REF("Visibility"))), None, False)),
                 ("Visibility", {}, ALT(L("public"), L("private"), L("protected")))],
   [("public", obj("Modifier", static=Bo(False), final=Bo(False), visibility=S("public"))),
    ("public static", obj("Modifier", static=Bo(True), final=Bo(False), visibility=S("public"))),
    ("final protected static", obj("Modifier", static=Bo(True), final=Bo(True), visibility=S("protected"))),
    ("static", REJECT)])
ex("unordered-nested", [("U", {}, ("ugrp", (SEQ(L("first"), L("second")), L("third")), None, False))],
   [("first second third", S("firstsecondthird")), ("third first second", S("thirdfirstsecond")), ("third second first", REJECT), ("second first third", REJECT)])
ex("abstract-1", [("Model", {}, ALT(REF("STRING"), REF("ID"), SEQ(L("#"), REF("Rule1"), REF("Sufix")))),
                  ("Rule1", {}, A("a", "=", REF("INT"))),
                  ("Sufix", {}, ALT(REF("ID"), REF("SomeOtherSufix"))),
                  ("SomeOtherSufix", {}, SEQ(L("--"), L("#")))],
   [("# 42 -- #", obj("Rule1", a=I(42)))])
ex("abstract-3", [("Model", {}, ALT(REF("STRING"), REF("Rule1"), REF("ID"), SEQ(REF("Prefix"), REF("INT"), REF("Sufix")))),
                  ("Rule1", {}, A("a", "=", L("a"))), ("Prefix", {}, L("#")), ("Sufix", {}, L("--"))],
   [("# 42 --", S("#42--")), ("a", obj("Rule1", a=S("a")))])
ex("abstract-4", [("Model", {}, ALT(REF("STRING"), REF("Rule1"), REF("ID"), SEQ(REF("Prefix"), REF("Rule1"), REF("Sufix"), REF("Rule2")))),
                  ("Rule1", {}, A("a", "=", REF("INT"))), ("Rule2", {}, A("a", "=", REF("STRING"))),
                  ("Prefix", {}, L("#")), ("Sufix", {}, L("--"))],
   [('# 42 -- "some string"', obj("Rule1", a=I(42))), ("# 42 --", REJECT)])
ex("eolterm", [("Model", {}, SEQ(A("a", "*=", REF("STRING"), L(","), True), A("b", "*=", REF("STRING"))))],
   [('"first", "second", "third"\n"fourth"', obj("Model", a=[S("first"), S("second"), S("third")], b=[S("fourth")]))])
ex("noskipws", [("Rule", {}, SEQ(L("entity"), A("name", "=", REF("ID")), ("re", r"\s*"), A("call", "=", REF("Rule2")))),
                ("Rule2", {"skipws": False}, SEQ(L("first"), L("second")))],
   [("entity x firstsecond", obj("Rule", name=S("x"), call=S("firstsecond"))), ("entity x first second", REJECT)])
ex("ws-newline", [("Rule", {}, SEQ(L("entity"), A("name", "=", REF("ID")), ("re", r"\s*"), A("call", "=", REF("Rule2")))),
                  ("Rule2", {"ws": "\n"}, SEQ(L("first"), L("second")))],
   [("entity x first\nsecond", obj("Rule", name=S("x"), call=S("firstsecond"))), ("entity x first second", REJECT),
    ("entity x firstsecond", obj("Rule", name=S("x"), call=S("firstsecond")))])
ex("multi-assign", [("MyRule", {}, SEQ(A("a", "=", REF("INT")), A("b", "=", REF("FLOAT")), A("a", "*=", REF("ID"))))],
   [("3 4.5 x y", obj("MyRule", a=[I(3), S("x"), S("y")], b=["float", "4.5"]))])
ex("param", [("Parameter", {}, ALT(SEQ(A("type", "=", REF("ID")), A("name", "=", REF("ID"))), A("name", "=", REF("ID"))))],
   [("int x", obj("Parameter", type=S("int"), name=S("x"))), ("x", obj("Parameter", type=S(""), name=S("x")))])
ex("optional", [("MoveUp", {}, SEQ(L("up"), ("opt", REF("INT"))))], [("up 45", S("up45")), ("up", S("up")), ("down", REJECT)])
ex("separator", [("M", {}, A("numbers", "*=", REF("INT"), L(",")))], [("45, 47, 3, 78", obj("M", numbers=[I(45), I(47), I(3), I(78)]))])
ex("predicate-not", [("M", {}, SEQ(L("a"), ("not", L("b")), REF("ID")))], [("a c", S("ac")), ("a b", REJECT)])
ex("predicate-and", [("M", {}, SEQ(L("a"), ("and", L("b")), REF("ID")))], [("a b", S("ab")), ("a c", REJECT)])
ex("suppress", [("M", {}, SEQ(("sup", L("a")), REF("ID")))], [("a c", S("c"))])
ex("comment", [("M", {}, A("xs", "+=", REF("ID"))), ("Comment", {}, ("re", r"\/\/.*$"))],
   [("a // c\nb", obj("M", xs=[S("a"), S("b")]))])


def check():
    bad = []
    for name, grammar, cases, cfg in EXAMPLES:
        interp = refpeg.Interp(grammar, **cfg)
        for text, want in cases:
            try:
                got = refpeg.dump(interp.load(text))
            except refpeg.Reject:
                got = REJECT
            if got != want:
                bad.append((name, text, want, got))
    return bad


if __name__ == "__main__":
    for b in check():
        print(b)
    print("examples:", len(EXAMPLES))
