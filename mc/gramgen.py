"""Bounded-exhaustive generators: grammar ASTs (simplest first) and inputs over a small token alphabet."""

import itertools

from mc import refpeg

L = lambda s: ("lit", s)
RE = lambda p: ("re", p)
REF = lambda n: ("ref", n)

AUX = {
    "R": ("R", {}, ("seq", (L("r"), ("asg", "n", "=", REF("INT"), None, False)))),
    "S": ("S", {}, ("seq", (L("s"), ("asg", "k", "=", REF("ID"), None, False)))),
    "B": ("B", {}, ("alt", (REF("R"), REF("S")))),
    "T": ("T", {}, ("seq", (L("m"), L("n")))),
    "V": ("V", {}, ("alt", (REF("INT"), L("v")))),
}
AUX_DEPS = {"B": ["R", "S"]}
SAMPLES = {"INT": ["7", "0"], "ID": ["x"], "STRING": ['"s"'], "[xy]+": ["x", "xy"], "x(y)z": ["xyz"], "BOOL": ["true"],
           "FLOAT": ["1.5"], "NUMBER": ["7", "1.5"], "ab|,": ["ab", ","], "ab": ["ab"], "x+": ["x", "xx"], ",|;": [",", ";"]}
AUX_TOKENS = {"R": ["r", "7"], "S": ["s", "x"], "B": ["r", "7", "s", "x"], "T": ["m", "n"], "V": ["7", "v"]}


def atoms(tier):
    a = [L("a"), L("b"), RE("[xy]+"), REF("INT"), REF("ID"), REF("R"), REF("V"), REF("B"), REF("T")]
    if tier == "thorough":
        a += [L("+"), RE("x(y)z"), REF("STRING"), REF("S")]
    return a


def rhs_atoms(tier):
    return atoms(tier)


def leaves(tier, slot):
    """size-1 items for operand slot 0/1 (slot decides attribute names so that operands may share attribute p)"""
    out = list(atoms(tier))
    attrs = ["p"] if slot == 0 else ["p", "q"]
    for at in attrs:
        for rhs in rhs_atoms(tier):
            for op in ("=", "+=", "*="):
                out.append(("asg", at, op, rhs, None, False))
    for rhs in (L("a"), REF("INT"), REF("R")):
        out.append(("asg", "s" if slot == 0 else "t", "?=", rhs, None, False))
    at = "p"
    out.append(("asg", at, "+=", REF("INT"), L(","), False))
    out.append(("asg", at, "*=", REF("INT"), None, True))
    out.append(("asg", at, "+=", L("a"), L(","), True))
    return out


def nullable(e):
    """can succeed without producing a parse tree node"""
    k = e[0]
    if k in ("lit", "re", "ref", "link"):
        return False  # the fragment's atoms always produce a node
    if k == "asg":
        return e[2] in ("*=", "?=")
    if k in ("opt", "star", "and", "not", "sup"):
        return True
    if k == "plus":
        return nullable(e[1])
    if k in ("seq", "ugrp"):
        return all(nullable(x) for x in e[1])
    if k == "alt":
        return any(nullable(x) for x in e[1])
    raise ValueError(e)


def has_bool_asg(e):
    return any(x[0] == "asg" and x[2] == "?=" for x in refpeg.walk(e))


def unary(x):
    """all unary constructions over x that stay inside the well-formed fragment"""
    out = []
    if not nullable(x):
        out.append(("opt", x))
        if not has_bool_asg(x):
            out.append(("star", x, None, False))
            out.append(("plus", x, None, False))
            out.append(("star", x, L(","), False))
            out.append(("plus", x, L(","), False))
            out.append(("star", x, None, True))
            out.append(("plus", x, L(","), True))
    if not any(y[0] == "asg" for y in refpeg.walk(x)):
        # assignments inside predicates never produce values; the docs are silent on their multiplicity (DESIGN 3.2)
        out.append(("not", x))
        out.append(("and", x))
    if x[0] in ("lit", "re", "ref", "seq", "alt"):
        out.append(("sup", x))
    return out


def binary(x, y):
    out = [("seq", (x, y))]
    if not nullable(x) and not nullable(y):
        out.append(("alt", (x, y)))
    out.append(("ugrp", (x, y), None, False))
    return out


def bodies(tier, size):
    """all root-rule bodies with exactly `size` nodes"""
    if size == 1:
        yield from leaves(tier, 0)
    elif size == 2:
        for x in leaves(tier, 0):
            yield from unary(x)
    elif size == 3:
        l0, l1 = leaves(tier, 0), leaves(tier, 1)
        for x in l0:
            for y in l1:
                yield from binary(x, y)
        for x in l0:
            for ux in unary(x):
                yield from unary(ux)
    elif size == 4:
        l0, l1 = leaves(tier, 0), leaves(tier, 1)
        for x in l0:
            for y in l1:
                for b in binary(x, y):
                    yield from unary(b)
                for ux in unary(x):
                    yield from binary(ux, y)
                for uy in unary(y):
                    yield from binary(x, uy)
    else:
        raise ValueError(size)


def valid(body):
    """grammar-level validity inside the fragment"""
    boolattrs = [x[1] for x in refpeg.walk(body) if x[0] == "asg" and x[2] == "?="]
    # ?= must not be inside a repetition and not share its attribute
    for x in refpeg.walk(body):
        if x[0] in ("star", "plus") and has_bool_asg(x[1]):
            return False
    # nested nullable bodies of repetitions / options / alternatives are excluded (DESIGN 3.2)
    for x in refpeg.walk(body):
        if x[0] in ("opt", "star", "plus") and nullable(x[1]):
            return False
        if x[0] == "alt" and any(nullable(a) for a in x[1]):
            return False
    return True


def used_refs(body):
    out = []
    for x in refpeg.walk(body):
        cand = None
        if x[0] == "ref":
            cand = x[1]
        elif x[0] == "asg" and x[3][0] == "ref":
            cand = x[3][1]
        if cand and cand not in out:
            out.append(cand)
    return out


def grammar_for(body, root_params=None, extra_rules=()):
    rules = [("M", dict(root_params or {}), body)]
    need = []
    for r in used_refs(body):
        if r in AUX:
            for d in [r] + AUX_DEPS.get(r, []):
                if d not in need:
                    need.append(d)
    rules += [AUX[n] for n in need]
    rules += list(extra_rules)
    return rules


def alphabet(grammar, foreign=True):
    toks = []

    def add(t):
        if t not in toks:
            toks.append(t)
    for name, params, body in grammar:
        if name in ("Comment", "CL", "CB"):  # the comment rule and the rules it refers to
            continue
        for x in refpeg.walk(body):
            parts = [x]
            if x[0] == "asg":
                parts = [x[3]] + ([x[4]] if x[4] else [])
            if x[0] in ("star", "plus", "ugrp") and x[2]:
                parts.append(x[2])
            for p in parts:
                if p[0] == "lit":
                    add(p[1])
                elif p[0] == "re":
                    for s in SAMPLES[p[1]]:
                        add(s)
                elif p[0] == "ref" and p[1] in SAMPLES:
                    for s in SAMPLES[p[1]]:
                        add(s)
    if foreign:
        add("k")
    return toks


def inputs(alpha, maxlen, cap=400):
    """all token strings of length <= maxlen; maxlen is lowered until the count fits under cap"""
    while maxlen > 1 and sum(len(alpha) ** i for i in range(maxlen + 1)) > cap:
        maxlen -= 1
    for n in range(maxlen + 1):
        for t in itertools.product(alpha, repeat=n):
            yield t


# ------------------------------------------------------------------------------------------
# F-rules: multi-rule grammars with rule modifiers, whitespace configuration and Comment rules

A_ = lambda attr, op, rhs, sep=None, eol=False: ("asg", attr, op, rhs, sep, eol)
SEQ = lambda *x: ("seq", tuple(x))
ALT = lambda *x: ("alt", tuple(x))

CHILD_BODIES = {
    "cd": SEQ(L("c"), L("d")),                         # multi-token match rule
    "vd": SEQ(A_("v", "=", REF("INT")), L("d")),       # common rule
    "ck": SEQ(L("c"), A_("k", "=", REF("ID"))),        # common rule
    "c+": ("plus", L("c"), None, False),               # repetition at the root of the rule
    "c": L("c"),                                       # single match
    "c|d": ALT(L("c"), L("d")),                        # choice at the root of the rule
    "ks": A_("ks", "+=", REF("ID"), None, False),      # single assignment as rule body
    "=Ccd": REF("Ccd"),                                # single reference to a match rule
    "=Cck": REF("Cck"),                                # single reference to a common rule
    "(cd)#": ("ugrp", (L("c"), L("d")), None, False),  # unordered group as the whole rule body (restate family only)
}
CHILD_EXTRA = {"=Ccd": ("Ccd", {}, SEQ(L("c"), L("d"))), "=Cck": ("Cck", {}, SEQ(L("c"), A_("k", "=", REF("ID"))))}
ROOTS = {
    "x=A y=B": lambda: SEQ(A_("x", "=", REF("A")), A_("y", "=", REF("B"))),
    "A | B": lambda: ALT(REF("A"), REF("B")),
    "xs+=A": lambda: A_("xs", "+=", REF("A")),
    "'a' x=A 'b'": lambda: SEQ(L("a"), A_("x", "=", REF("A")), L("b")),
    "xs*=A[',']": lambda: A_("xs", "*=", REF("A"), L(",")),
    "x=A 'a'*[eolterm]": lambda: SEQ(A_("x", "=", REF("A")), ("star", L("a"), None, True)),
}
PARAMS = [{}, {"skipws": False}, {"skipws": True}, {"ws": " "}, {"ws": "\n"}]
COMMENTS = {None: None, "line": ("Comment", {}, RE(r"#.*$")), "block": ("Comment", {}, RE(r"/\*(.|\n)*?\*/"))}


WS_SETS = [{}, {"ws": "\r\n"}, {"ws": " \t\r\n"}, {"ws": "\t"}, {"ws": "%\n"}]  # whitespace sets of several characters (second F-rules parameter list)


def frules(tier, PARAMS=PARAMS):
    """yields (label, grammar). Quick: at most one rule carries a modifier; thorough: up to two."""
    children = [c for c in CHILD_BODIES if c != "(cd)#"]  # the unordered group body belongs to the restate family only
    maxmods = 1 if tier == "quick" else 2
    for rname, rmk in ROOTS.items():
        uses_b = "B" in rname
        for ca in children:
            cbs = children if uses_b else [None]
            if tier == "quick" and uses_b:
                cbs = [c for c in children if c in ("cd", "vd", "c")]
            for cb in cbs:
                for pm in PARAMS:
                    for pa in PARAMS:
                        for pb in (PARAMS if uses_b else [{}]):
                            if sum(1 for p in (pm, pa, pb) if p) > maxmods:
                                continue
                            for cname, crule in COMMENTS.items():
                                if cname and tier == "quick" and (pm or pb):
                                    continue
                                rules = [("M", pm, rmk()), ("A", pa, CHILD_BODIES[ca])]
                                if uses_b:
                                    rules.append(("B", pb, CHILD_BODIES[cb]))
                                for c in (ca, cb):
                                    if c in CHILD_EXTRA and CHILD_EXTRA[c] not in rules:
                                        rules.append(CHILD_EXTRA[c])
                                if crule:
                                    rules.append(crule)
                                yield "%s|A=%s|B=%s" % (rname, ca, cb), rules
    # one rule reached under two whitespace modes
    for pa in PARAMS[1:]:
        for cc in ("cd", "vd", "c+"):
            yield "two-modes", [("M", {}, ALT(REF("A"), REF("B"))), ("A", pa, SEQ(A_("v", "=", REF("C")), L("q"))),
                                ("B", {}, SEQ(A_("v", "=", REF("C")), L("r"))), ("C", {}, CHILD_BODIES[cc])]


def frules_restate():
    """two modifiers: the root changes the whitespace mode and the child restates the meta-model wide default (or the other way round under
    the inverse global setting): the child's explicit modifier must win over the mode propagated from its caller"""
    for rname, rmk in ROOTS.items():
        if "B" in rname:
            continue
        for ca in ("cd", "vd", "c+", "(cd)#"):
            for pm, pa in (({"skipws": False}, {"skipws": True}), ({"skipws": True}, {"skipws": False})):
                rules = [("M", pm, rmk()), ("A", pa, CHILD_BODIES[ca])]
                if ca in CHILD_EXTRA and CHILD_EXTRA[ca] not in rules:
                    rules.append(CHILD_EXTRA[ca])
                yield "%s|A=%s|restate" % (rname, ca), rules


def layouts(tokens, joiners):
    """every assignment of a joiner to every boundary (incl. leading and trailing position: '' or first joiner)"""
    if not tokens:
        for lead in ("", " "):
            yield lead
        return
    for js in itertools.product(joiners, repeat=len(tokens) - 1):
        s = tokens[0]
        for j, t in zip(js, tokens[1:]):
            s += j + t
        yield s
        yield " " + s + "\n"
