"""Shared model family for the link-phase / navigation properties (C05, C13, C14, C15, C33, C34):
all trees of Node (container) / Leaf objects up to N objects with unique names, an optional back reference.
A Node holds a list attribute `items` (abstract type Item) and an optional single-valued containment `head`."""

GRAMMAR = """
Model: items*=Item;
Item: Node | Leaf;
Node: 'n' name=ID ('->' up=[Item])? ('h' head=Item)? '{' items*=Item '}';
Leaf: 'l' name=ID ('->' up=[Item])? (':' val=INT)?;
"""


def forests(n, depth=3, heads=True):
    """forests with exactly n objects; object = ("n", kids, head-or-None) or ("l",)"""
    if n == 0:
        yield ()
        return
    for k in range(1, n + 1):
        for first in tree(k, depth, heads):
            for rest in forests(n - k, depth, heads):
                yield (first,) + rest


def tree(k, depth, heads=True):
    if k == 1:
        yield ("l",)
        yield ("n", (), None)
    if k > 1 and depth > 0:
        for kids in forests(k - 1, depth - 1, heads):
            if kids:
                yield ("n", kids, None)
        if heads:
            # a head object (single-valued containment) of size h plus kids of size k-1-h
            for h in range(1, k):
                for head in tree(h, depth - 1, heads):
                    for kids in forests(k - 1 - h, depth - 1, heads):
                        yield ("n", kids, head)


def kids_of(t):
    """child (path element, subtree) pairs of an object in attribute order: head first, then items"""
    out = []
    if t[0] == "n":
        if t[2] is not None:
            out.append(("h", t[2]))
        out += list(enumerate(t[1]))
    return out


def flatten(f, path=()):
    """pre-order list of (path, kind)"""
    for i, t in enumerate(f):
        yield from _flat(t, path + (i,))


def _flat(t, p):
    yield p, t[0]
    for e, sub in kids_of(t):
        yield from _flat(sub, p + (e,))


def names(f):
    return {p: "o%d" % i for i, (p, k) in enumerate(flatten(f))}


def render(f, nm, ref=None, vals=None, path=(), sep=" "):
    """ref: (src path, dst path) -> src gets '-> name(dst)'; vals: {path: int} for leaves"""
    return sep.join(_render(t, path + (i,), nm, ref, vals, sep) for i, t in enumerate(f))


def _render(t, p, nm, ref, vals, sep):
    s = ("n " if t[0] == "n" else "l ") + nm[p]
    if ref and ref[0] == p:
        s += " -> " + nm[ref[1]]
    if t[0] == "n":
        if t[2] is not None:
            s += " h " + _render(t[2], p + ("h",), nm, ref, vals, sep)
        s += " { " + render(t[1], nm, ref, vals, p, sep) + " }"
    elif vals and p in vals:
        s += " : %d" % vals[p]
    return s


def obj_at(model, path):
    o = model
    for i in path:
        o = o.head if i == "h" else o.items[i]
    return o


def subtree(f, path):
    """the object tuple at path"""
    cur = None
    forest = f
    for e in path:
        cur = cur[2] if e == "h" else forest[e]
        forest = cur[1] if cur[0] == "n" else ()
    return cur


def child_paths(f, path):
    """paths of the direct children of the object at path (() = the model), in attribute order"""
    if path == ():
        return [(i,) for i in range(len(f))]
    return [path + (e,) for e, _ in kids_of(subtree(f, path))]


def preorder(f, start=()):
    out = []

    def rec(p):
        for q in child_paths(f, p):
            out.append(q)
            rec(q)
    rec(start)
    return out
