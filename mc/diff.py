"""Differential execution: RefPEG (reference) vs real textX (implementation) on one grammar."""

import json

from mc import refpeg, impl
from mc.core import watchdog, CaseTimeout

REF_KEYS = ("skipws", "ws", "auto_init_attributes", "use_regexp_group", "ignore_case", "autokwd")


def ref_outcome(interp, text):
    try:
        v = interp.load(text)
    except refpeg.Reject:
        return ("reject", None)
    return ("accept", refpeg.dump(v))


def compile_both(grammar, cfg, _budget=10):
    """-> (interp, mm, error)  error is a string if the implementation refuses the grammar"""
    gtext = refpeg.to_text(grammar)
    rcfg = {k: v for k, v in cfg.items() if k in REF_KEYS}
    interp = refpeg.Interp(grammar, **rcfg)
    try:
        with watchdog(_budget):
            mm = impl.make_mm(gtext, cfg)
    except CaseTimeout as e:
        if _budget < 60:
            return compile_both(grammar, cfg, 60)  # report a hang only if it repeats with a larger budget
        return interp, None, "timeout while compiling the grammar at " + str(e)[-700:]
    except RecursionError:
        return interp, None, "RecursionError while compiling the grammar"
    except Exception as e:
        return interp, None, "%s: %s" % (type(e).__name__, e)
    return interp, mm, None


def compare(interp, mm, text):
    """-> (agree, ref, imp) with imp = (kind, payload)"""
    r = ref_outcome(interp, text)
    kind, payload, _ = impl.load(mm, text)
    if kind == "accept":
        i = ("accept", payload)
    else:
        i = (kind, payload)
    if r[0] == "reject":
        return i[0] == "reject", r, i
    return i[0] == "accept" and json.dumps(i[1], sort_keys=True) == json.dumps(r[1], sort_keys=True), r, i


QUIRKS = ("abstract_first_rule_ref", "comment_cache_ignores_ws_mode")


def attribute(grammar, cfg, text, imp, quirks=QUIRKS):
    """Attribute a disagreement to a known finding: the strict reference disagrees (checked by the caller)
    and the reference run with exactly that finding's quirk switch reproduces the implementation's outcome."""
    rcfg = {k: v for k, v in cfg.items() if k in REF_KEYS}
    for q in quirks:
        r = ref_outcome(refpeg.Interp(grammar, quirks=(q,), **rcfg), text)
        if r[0] == "reject":
            same = imp[0] == "reject"
        else:
            same = imp[0] == "accept" and json.dumps(imp[1], sort_keys=True) == json.dumps(r[1], sort_keys=True)
        if same:
            return q
    return None
