"""Shared machinery: run context, worker pool, evidence, replays, known findings.

Every check is a module mc/props/cNN.py exposing

    ID, LEVEL, TECHNIQUE
    def run(ctx)            -- enumerate the space, call ctx.merge()/ctx.violation(), return coverage dict
    def replay(payload)     -- re-execute one stored case, return (ok, observation)

The deciding step of every check is an exhaustive enumeration executed against the real
textX imported from /repo (see DESIGN.md); this module only does the bookkeeping.
"""

import hashlib
import json
import multiprocessing
import os
import random
import shutil
import signal
import sys
import tempfile
import time
import traceback

VERIF = os.path.dirname(os.path.dirname(os.path.abspath(__file__)))
WORK = os.path.join(VERIF, ".work")
NPROC = int(os.environ.get("VERIF_NPROC", "16"))
MAX_REPLAYS = int(os.environ.get("VERIF_MAX_REPLAYS", "40"))


def h64(obj):
    """Stable 64-bit hash of a JSON-able case identifier."""
    s = obj if isinstance(obj, str) else json.dumps(obj, sort_keys=True, default=str)
    return int.from_bytes(hashlib.blake2b(s.encode("utf-8", "surrogatepass"), digest_size=8).digest(), "big")


class HarnessError(Exception):
    """The harness itself is inconsistent (never reported as a property violation)."""


class CaseTimeout(Exception):
    pass


def _alarm(signum, frame):
    where = "".join(traceback.format_stack(frame, limit=6))
    raise CaseTimeout(where)


class watchdog:
    """Per-case watchdog: turns a hang of the implementation into an exception.
    Counts USER CPU time of this process (ITIMER_VIRTUAL), neither wall-clock time nor kernel time: with 16 busy
    workers the sandbox deschedules processes for seconds (wall-clock alarms fired on healthy cases), and under heavy
    load the kernel time charged to a process for page faults and forks grew to seconds as well (ITIMER_PROF alarms
    fired on a handful of trivial parses in a thorough run; their replays passed). A hang of the implementation is a
    Python-level loop or recursion, i.e. user time."""

    def __init__(self, seconds=5):
        self.seconds = seconds

    def __enter__(self):
        self.old = signal.signal(signal.SIGVTALRM, _alarm)
        signal.setitimer(signal.ITIMER_VIRTUAL, self.seconds)

    def __exit__(self, *a):
        signal.setitimer(signal.ITIMER_VIRTUAL, 0)
        signal.signal(signal.SIGVTALRM, self.old)
        return False


RUN_DIR = None  # per-run scratch directory, created by the parent before workers are forked


def rundir():
    """Scratch directory of this run (created on demand in replay mode; removed at exit)."""
    global RUN_DIR
    if RUN_DIR is None or not os.path.isdir(RUN_DIR):
        import atexit

        RUN_DIR = mkwork("run")
        pid = os.getpid()
        d = RUN_DIR
        atexit.register(lambda: os.getpid() == pid and rmwork(d))
    return RUN_DIR


def mkwork(prefix="w"):
    os.makedirs(WORK, exist_ok=True)
    return tempfile.mkdtemp(prefix=prefix + "-", dir=WORK)


def rmwork(path):
    shutil.rmtree(path, ignore_errors=True)


class Unit:
    """Result of one work unit (one case or a bundle of cases) computed in a worker."""

    def __init__(self):
        self.n = 0  # evaluations
        self.nt = []  # 64-bit hashes of distinct non-trivial case ids
        self.ids = 0  # xor of all case-id hashes (space digest)
        self.fails = []  # [{"id":..., "key":..., "payload":...}]
        self.samples = []
        self.counters = {}
        self.states = 0
        self.transitions = 0

    def case(self, case_id, nontrivial=True, sample=None):
        self.n += 1
        hv = h64(case_id)
        self.ids ^= hv
        if nontrivial:
            self.nt.append(hv)
        if sample is not None and len(self.samples) < 2:
            self.samples.append(sample)

    def count(self, name, k=1):
        self.counters[name] = self.counters.get(name, 0) + k

    def fail(self, case_id, payload, key=None, what=None, sig=None):
        """sig: optional coarse signature; at most 2 replays are written per signature"""
        self.fails.append({"id": case_id, "key": key, "payload": payload, "what": what, "sig": sig})
        if sig is not None:
            self.count("violation-signature:" + sig)

    def pack(self):
        return (self.n, self.nt, self.ids, self.fails, self.samples, self.counters, self.states, self.transitions)


def _safe_call(args):
    fn, unit = args
    try:
        r = fn(unit)
        return r.pack() if isinstance(r, Unit) else r
    except BaseException as e:  # harness bug inside a worker: surface it, do not hide it
        return ("HARNESS", "".join(traceback.format_exception(type(e), e, e.__traceback__)), repr(unit)[:500])


class Ctx:
    def __init__(self, mod, tier, seed):
        self.mod = mod
        self.prop = mod.ID
        self.level = mod.LEVEL
        self.tier = tier
        self.seed = seed
        self.t0 = time.time()
        self.evaluations = 0
        self.nt = set()
        self.digest = 0
        self.samples = []
        self.counters = {}
        self.violations = []  # (case_id, path)
        self.nviol = 0
        self.known_hits = {}  # key -> [count, witness id]
        self.states = 0
        self.transitions = 0
        self.known = load_known(self.prop)
        self.replay_dir = os.path.join(os.environ.get("VERIF_REPLAY_DIR") or os.path.join(VERIF, "replays"), self.prop)
        self.harness_errors = []
        self.sigs = {}
        global RUN_DIR
        RUN_DIR = mkwork(self.prop.lower())
        self.workdir = RUN_DIR

    # ---- parallel map -------------------------------------------------------------------
    def pmap(self, fn, units, chunksize=1, nproc=None):
        """Run fn over units in a fork pool and merge every result. Units are shuffled by
        VERIF_SEED (the set explored is seed-independent; see coverage.space_digest)."""
        units = list(units)
        random.Random(self.seed).shuffle(units)
        nproc = nproc or NPROC
        if nproc <= 1 or len(units) <= 1:
            for u in units:
                self.merge(_safe_call((fn, u)))
            return
        mp = multiprocessing.get_context("fork")
        with mp.Pool(min(nproc, len(units))) as pool:
            for r in pool.imap_unordered(_safe_call, [(fn, u) for u in units], chunksize):
                self.merge(r)

    def merge(self, r):
        if isinstance(r, Unit):
            r = r.pack()
        if r and r[0] == "HARNESS":
            self.harness_errors.append(r)
            return
        n, nt, ids, fails, samples, counters, states, transitions = r
        self.evaluations += n
        self.nt.update(nt)
        self.digest ^= ids
        self.states += states
        self.transitions += transitions
        for s in samples:
            if len(self.samples) < 6:
                self.samples.append(s)
        for k, v in counters.items():
            self.counters[k] = self.counters.get(k, 0) + v
        for f in fails:
            self.violation(f["id"], f["payload"], f.get("key"), f.get("what"), f.get("sig"))

    # ---- violations ---------------------------------------------------------------------
    def violation(self, case_id, payload, key=None, what=None, sig=None):
        if key is not None and key in self.known and self.known[key]["status"] == "open":
            hit = self.known_hits.setdefault(key, [0, case_id])
            hit[0] += 1
            return
        self.nviol += 1
        if sig is not None:
            n = self.sigs.get(sig, 0)
            self.sigs[sig] = n + 1
            if n >= 2:
                return
        if len(self.violations) < MAX_REPLAYS:
            os.makedirs(self.replay_dir, exist_ok=True)
            name = "%016x.json" % h64(case_id)
            path = os.path.join(self.replay_dir, name)
            with open(path, "w") as f:
                json.dump({"property": self.prop, "case_id": case_id, "key": key, "what": what, "payload": payload},
                          f, indent=1, sort_keys=True, default=str)
            self.violations.append((case_id, path, key, what))

    # ---- finish -------------------------------------------------------------------------
    def finish(self, coverage, assumptions=()):
        rmwork(self.workdir)
        if self.harness_errors:
            sys.stderr.write("HARNESS ERROR in %s (not a property verdict):\n%s\nunit=%s\n"
                             % (self.prop, self.harness_errors[0][1], self.harness_errors[0][2]))
            return 3
        cov = {
            "evaluations": self.evaluations,
            "distinct_nontrivial": len(self.nt),
            "samples": self.samples,
            "space_digest": "%016x" % self.digest,
            "counters": dict(sorted(self.counters.items())),
            "known_findings_hit": {k: {"cases": v[0], "witness": v[1]} for k, v in sorted(self.known_hits.items())},
        }
        if self.level == "model_checking":
            cov["states"] = self.states
            cov["transitions"] = self.transitions
            cov["traces_validated_against_impl"] = self.transitions
        cov.update(coverage)
        ev = {
            "property_id": self.prop,
            "tier": self.tier,
            "seed": self.seed,
            "level": self.level,
            "coverage": cov,
            "assumptions": list(assumptions),
            "wall_s": round(time.time() - self.t0, 2),
            "violations": self.nviol,
        }
        # VERIF_EVIDENCE_DIR is only set by tools/seed*.sh, so that runs against deliberately broken trees never overwrite evidence
        evdir = os.environ.get("VERIF_EVIDENCE_DIR") or os.path.join(VERIF, "evidence")
        os.makedirs(evdir, exist_ok=True)
        tmp = os.path.join(evdir, ".%s.tmp" % self.prop)
        with open(tmp, "w") as f:
            json.dump(ev, f, indent=1, sort_keys=False, default=str)
        os.replace(tmp, os.path.join(evdir, self.prop + ".json"))
        for key, (cnt, wit) in sorted(self.known_hits.items()):
            print("KNOWN-FINDING: property=%s %s: %s (%d cases, witness=%s)"
                  % (self.prop, key, self.known[key]["what"], cnt, json.dumps(wit, default=str)[:200]))
        for case_id, path, key, what in self.violations:
            print("VIOLATION property=%s replay=%s" % (self.prop, path))
            if what:
                print("  what: %s" % (what,))
        if self.nviol > len(self.violations):
            print("  (%d further violations not written)" % (self.nviol - len(self.violations)))
        print("%s %s tier=%s seed=%d evaluations=%d nontrivial=%d states=%d transitions=%d violations=%d known=%d wall=%.1fs"
              % (self.prop, "FAIL" if self.nviol else "ok", self.tier, self.seed, self.evaluations, len(self.nt),
                 self.states, self.transitions, self.nviol, sum(v[0] for v in self.known_hits.values()),
                 time.time() - self.t0))
        return 1 if self.nviol else 0


def load_known(prop):
    path = os.path.join(VERIF, "known_findings.json")
    out = {}
    if os.path.exists(path):
        with open(path) as f:
            data = json.load(f)
        for e in data.get("findings", []):
            if e["property"] == prop:
                out[e["key"]] = e
    return out


def norm_path(s, base):
    """Normalise temp-dir prefixes in messages."""
    if s is None:
        return None
    return s.replace(base, "<tmp>")
