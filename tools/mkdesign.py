#!/venv/bin/python
"""re-inserts the generated tables (seed table, measured coverage) into DESIGN.md between their markers"""
import re, subprocess, os
p = '/verif/DESIGN.md'
s = open(p).read()
def block(name, text):
    global s
    a, b = '<!-- %s:begin -->' % name, '<!-- %s:end -->' % name
    s = re.sub(re.escape(a) + '.*?' + re.escape(b), lambda m: a + '\n' + text.strip() + '\n' + b, s, flags=re.S)
block('SEEDTABLE', subprocess.run(['/verif/tools/seedtable.py'], capture_output=True, text=True).stdout)
cov = []
for tier in ('quick', 'thorough'):
    f = '/verif/runs/summary-%s.txt' % tier
    if os.path.exists(f):
        cov.append('**%s tier**\n\n```\n%s```\n' % (tier, open(f).read()))
block('COVTABLE', '\n'.join(cov) or '(not measured yet)')
open(p, 'w').write(s)
