#!/venv/bin/python
"""re-inserts the generated tables (seed table, measured coverage) into DESIGN.md between their markers"""
import re, subprocess, os
p = '/verif/DESIGN.md'
s = open(p).read()
def block(name, text):
    global s
    a, b = '<!-- %s:begin -->' % name, '<!-- %s:end -->' % name
    s = re.sub(re.escape(a) + '.*?' + re.escape(b), lambda m: a + '\n' + text.strip() + '\n' + b, s, flags=re.S)
block('SEEDTABLE', subprocess.run(['/verif/tools/seedtable.py'], capture_output=True, text=True).stdout)
# fixes recorded in known_findings.json that the hand-written table of 7.1 does not mention yet
import json
fixed = json.load(open('/verif/known_findings.json'))['fixed']
hand = s.split('<!-- FIXTABLE:begin -->')[0]
rows = ['| commit | property | failing input / history (witness) | repair |', '|---|---|---|---|']
for line in fixed:
    m = re.match(r'fixed: property=(C\d+) ([0-9a-f]{7,}) (.*)', line, re.S)
    if not m or m.group(2) in hand:
        continue
    subj = subprocess.run(['git', '-C', '/repo', 'log', '-1', '--format=%s', m.group(2)], capture_output=True, text=True).stdout.strip()
    subj = re.sub(r'^fix:\s*', '', subj)
    esc = lambda t: ' '.join(t.split()).replace('|', '\\|')
    rows.append('| %s | %s | %s | %s |' % (m.group(2), m.group(1), esc(m.group(3)), esc(subj)))
block('FIXTABLE', '\n'.join(rows))
nfix = subprocess.run("git -C /repo log --oneline | grep -c ' fix:'", shell=True, capture_output=True, text=True).stdout.strip()
s = re.sub(r"\(§7: \d+ `fix:` commits", "(§7: %s `fix:` commits" % nfix, s)
nopen = len({f['key'] for f in json.load(open('/verif/known_findings.json'))['findings'] if f['status'] == 'open'})
s = re.sub(r"commits in `/repo`, \d+ open known findings", "commits in `/repo`, %d open known findings" % nopen, s)
nseeds = len([x for x in os.listdir('/verif/seeded') if not x.startswith('_')])
cov = []
for tier in ('quick', 'thorough'):
    f = '/verif/runs/summary-%s.txt' % tier
    if os.path.exists(f):
        cov.append('**%s tier**\n\n```\n%s```\n' % (tier, open(f).read()))
block('COVTABLE', '\n'.join(cov) or '(not measured yet)')
open(p, 'w').write(s)
