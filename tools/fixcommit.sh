#!/bin/sh
# usage: fixcommit.sh <property> "<commit subject after 'fix: '>" "<what failed>" ["commit body"]
# commits the working-tree change of /repo as one "fix:" commit after the pinned suite shows the baseline numbers,
# then appends the "fixed:" line to known_findings.json
set -e
P="$1"; SUBJ="$2"; WHAT="$3"; BODY="$4"
cd /repo
R=$(/venv/bin/python -m pytest -q -p no:cacheprovider --timeout=900 --continue-on-collection-errors 2>&1 | tail -1)
echo "$R"
case "$R" in "27 failed, 313 passed"*) ;; *) echo "SUITE CHANGED - not committing"; exit 1;; esac
if [ -n "$BODY" ]; then git commit -qam "fix: $SUBJ" -m "$BODY"; else git commit -qam "fix: $SUBJ"; fi
H=$(git log -1 --format=%h)
cd /verif
/venv/bin/python - "$P" "$H" "$WHAT" <<'PY'
import json,sys
p='/verif/known_findings.json'; d=json.load(open(p))
d["fixed"].append(f"fixed: property={sys.argv[1]} {sys.argv[2]} {sys.argv[3]}")
json.dump(d,open(p,'w'),indent=1,ensure_ascii=False)
PY
echo "committed $H"
