#!/venv/bin/python
"""prints the markdown table of kept seeded changes (DESIGN.md section 8) from seeded/*/meta.json"""
import json, os, re
print("| seed | change (first line of the sub-agent's note) | caught by | first version missed it? what was strengthened |")
print("|---|---|---|---|")
for n in sorted(os.listdir('/verif/seeded')):
    m = json.load(open('/verif/seeded/%s/meta.json' % n))
    first = re.sub(r"^Change( [ab])?\s*(\([^)]*\))?:\s*", "", ' '.join(m['needs_to_manifest'].split())).replace('|', '\\|')
    if len(first) > 240:
        first = first[:237] + '...'
    print("| %s | %s | %s | %s |" % (n, first, ', '.join(m['detected_by']) or 'none', (m.get('note') or '-').replace('|', '\\|')))
