#!/venv/bin/python
"""prints the markdown table of kept seeded changes (DESIGN.md section 8) from seeded/*/meta.json"""
import json, os, re
print("| seed | change (first line of the sub-agent's note) | caught by | first version missed it? what was strengthened |")
print("|---|---|---|---|")
for n in sorted(x for x in os.listdir('/verif/seeded') if not x.startswith('_')):
    m = json.load(open('/verif/seeded/%s/meta.json' % n))
    first = re.sub(r"^Change( [ab])?\s*(\([^)]*\))?:\s*", "", ' '.join(m['needs_to_manifest'].split())).replace('|', '\\|')
    if len(first) > 240:
        first = first[:237] + '...'
    print("| %s | %s | %s | %s |" % (n, first, ', '.join(m['detected_by']) or 'none', (m.get('note') or '-').replace('|', '\\|')))
obs = '/verif/seeded/_obsolete'
if os.path.isdir(obs) and os.listdir(obs):
    print()
    print("Seeds made obsolete by later fixes (kept under seeded/_obsolete/, not part of the regression run): "
          + "; ".join("%s - %s" % (n, json.load(open('%s/%s/meta.json' % (obs, n))).get('obsolete', '')) for n in sorted(os.listdir(obs))) + ".")
