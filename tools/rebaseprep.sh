#!/bin/sh
# usage: tools/rebaseprep.sh <seed name>...  -- inputs (/tmp/rebasein/<name>/) and a scratch worktree (/tmp/rb-<name>) for re-creating a kept seed by hand on /repo HEAD
cd /verif; mkdir -p /tmp/rebasein /tmp/rebased
for n in "$@"; do
  mkdir -p /tmp/rebasein/$n; cp seeded/$n/patch.diff seeded/$n/demo.py /tmp/rebasein/$n/
  /venv/bin/python -c "import json; d=json.load(open('seeded/$n/meta.json')); open('/tmp/rebasein/$n/notes.txt','w').write(d.get('needs_to_manifest',''))"
  git -C /repo worktree add -q --detach /tmp/rb-$n HEAD
done
