#!/bin/sh
# usage: tools/seedtry.sh <seed name> <check id>... [-- note]   -- runs the quick checks against a kept seed and records the ones that catch it in meta.json
name=$1; shift
checks=""; note=""
while [ $# -gt 0 ]; do if [ "$1" = "--" ]; then shift; note="$*"; break; fi; checks="$checks $1"; shift; done
cd /verif
out=$(tools/seedrun.sh seeded/$name $checks)
echo "$out" | cut -c1-300
det=$(echo "$out" | grep ' rc=1 ' | cut -d' ' -f1 | tr '\n' ',' | sed 's/,$//')
/venv/bin/python - "$name" "$det" "$note" <<'PY'
import json, sys
name, det, note = sys.argv[1:4]
p = '/verif/seeded/%s/meta.json' % name
m = json.load(open(p))
for d in [x for x in det.split(',') if x]:
    if d not in m['detected_by']:
        m['detected_by'].append(d)
if note:
    m['note'] = note
json.dump(m, open(p, 'w'), indent=1)
print(name, 'detected_by =', m['detected_by'])
PY
