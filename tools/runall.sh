#!/bin/sh
# usage: tools/runall.sh <quick|thorough> [ids...]  -- runs the checks one after the other on /repo's tree, collects their summary lines
cd /verif; tier=$1; shift
ids="$@"; [ -z "$ids" ] && ids=$(/venv/bin/python -c "import json;print(' '.join(c['property_id'] for c in json.load(open('MANIFEST.json'))['checks']))")
mkdir -p runs
for i in $ids; do
  out=$(VERIF_SEED=${VERIF_SEED:-0} ./check $i --tier $tier 2>&1); rc=$?
  line=$(echo "$out" | grep -E "^$i (ok|FAIL) " | tail -1)
  kf=$(echo "$out" | grep -c '^KNOWN-FINDING')
  echo "rc=$rc known_finding_lines=$kf $line"
  [ $rc -ne 0 ] && echo "$out" | grep -E '^(VIOLATION|HARNESS)' | head -5
done
