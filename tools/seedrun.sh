#!/bin/sh
# usage: tools/seedrun.sh <dir with patch.diff> <check id>...   -- applies the change to /repo, runs the quick checks, reverts
d=$(readlink -f "$1"); shift
cd /verif
export VERIF_EVIDENCE_DIR=/verif/.work/seed-evidence VERIF_REPLAY_DIR=/verif/.work/seed-replays
if [ -n "$(git -C /repo status --porcelain)" ]; then echo "/repo not clean"; exit 2; fi
git -C /repo apply "$d/patch.diff" || { echo APPLY-FAILED; exit 3; }
for c in "$@"; do
  out=$(./check "$c" --tier "${TIER:-quick}" 2>&1); rc=$?
  n=$(echo "$out" | grep -c '^VIOLATION')
  echo "$c rc=$rc violations_lines=$n :: $(echo "$out" | grep -m1 'what:' | cut -c1-220)"
done
git -C /repo checkout -- .
