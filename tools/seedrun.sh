#!/bin/sh
# usage: tools/seedrun.sh <dir with patch.diff> <check id>...
# Runs the quick checks against a scratch worktree of /repo's HEAD carrying the change (VERIF_REPO); /repo itself is not touched,
# evidence and replays of these runs go to /verif/.work. (The same can be done in place: git -C /repo apply <patch>; ./check ...; git -C /repo checkout -- .)
d=$(readlink -f "$1"); shift
cd /verif
export VERIF_EVIDENCE_DIR=/verif/.work/seed-evidence VERIF_REPLAY_DIR=/verif/.work/seed-replays
wt=/tmp/seedrun-$$
git -C /repo worktree add -q --detach "$wt" HEAD || exit 2
if ! git -C "$wt" apply "$d/patch.diff" 2>/dev/null; then echo APPLY-FAILED; git -C /repo worktree remove --force "$wt"; exit 3; fi
export VERIF_REPO="$wt"
for c in "$@"; do
  out=$(./check "$c" --tier "${TIER:-quick}" 2>&1); rc=$?
  n=$(echo "$out" | grep -c '^VIOLATION')
  echo "$c rc=$rc violations_lines=$n :: $(echo "$out" | grep -m1 'what:' | cut -c1-220)"
done
git -C /repo worktree remove --force "$wt"
