#!/bin/sh
# usage: tools/seedconfirm.sh <dir with patch.diff demo.py>   -- confirms a seeded change in a scratch worktree
d=$(readlink -f "$1"); wt=/tmp/confirm-$$
git -C /repo worktree add -q --detach "$wt" HEAD || exit 2
cd "$wt" || exit 2
PYTHONPATH=$wt /venv/bin/python "$d/demo.py" >/tmp/confirm-$$.base 2>&1; base=$?
if ! git apply "$d/patch.diff" 2>/tmp/confirm-$$.apply; then echo "APPLY-FAILED $(head -2 /tmp/confirm-$$.apply)"; cd /; git -C /repo worktree remove --force "$wt"; exit 3; fi
tests=$(PYTHONPATH=$wt /venv/bin/python -m pytest -q -p no:cacheprovider --timeout=900 --continue-on-collection-errors 2>&1 | tail -1)
PYTHONPATH=$wt /venv/bin/python "$d/demo.py" >/tmp/confirm-$$.mut 2>&1; mut=$?
cd /; git -C /repo worktree remove --force "$wt"
echo "demo_unchanged_exit=$base demo_mutated_exit=$mut tests='$tests'"
tail -2 /tmp/confirm-$$.mut
rm -f /tmp/confirm-$$.*
case "$tests" in *"27 failed, 313 passed"*) t=ok;; *) t=bad;; esac
[ "$base" = 0 ] && [ "$mut" != 0 ] && [ "$t" = ok ] && echo CONFIRMED || echo NOT-CONFIRMED
