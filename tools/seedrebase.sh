#!/bin/sh
# usage: tools/seedrebase.sh <seed name>...  -- tries to re-apply a kept seed's patch on /repo HEAD with a 3-way merge (scratch worktree); on success
# rewrites seeded/<name>/patch.diff; prints one line per seed
cd /verif
for n in "$@"; do
  wt=/tmp/rebase-$$-$n
  git -C /repo worktree add -q --detach "$wt" HEAD || exit 2
  if (cd "$wt" && git apply --3way "/verif/seeded/$n/patch.diff" >/tmp/rebase-$$.log 2>&1) && ! grep -rq '^<<<<<<<' "$wt/textx" 2>/dev/null; then
    (cd "$wt" && git diff HEAD > "/verif/seeded/$n/patch.diff.new")
    if [ -s "/verif/seeded/$n/patch.diff.new" ]; then mv "/verif/seeded/$n/patch.diff.new" "/verif/seeded/$n/patch.diff"; echo "$n REBASED"; else rm -f "/verif/seeded/$n/patch.diff.new"; echo "$n EMPTY"; fi
  else
    echo "$n CONFLICT $(grep -l '^<<<<<<<' -r "$wt/textx" 2>/dev/null | tr '\n' ' ') $(tail -1 /tmp/rebase-$$.log)"
  fi
  git -C /repo worktree remove --force "$wt"
done
rm -f /tmp/rebase-$$.log
