#!/bin/sh
# usage: tools/seedall.sh [name...]  -- runs, for every kept seed, the quick checks named in its meta.json against a scratch worktree carrying the change
cd /verif
names="$@"; [ -z "$names" ] && names=$(ls seeded | grep -v "^_")
for n in $names; do
  checks=$(/venv/bin/python -c "import json;print(' '.join(json.load(open('seeded/$n/meta.json'))['detected_by']))")
  out=$(tools/seedrun.sh seeded/$n $checks)
  case "$out" in *APPLY-FAILED*) echo "$n APPLY-FAILED";; *) echo "$n $(echo "$out" | sed 's/ violations_lines=/,viol=/; s/ ::.*//' | tr '\n' ' ')";; esac
done
