#!/bin/sh
# usage: tools/seedall.sh [name...]  -- applies every kept seed to /repo in turn, runs the quick checks named in its meta.json, reverts.
cd /verif
export VERIF_EVIDENCE_DIR=/verif/.work/seed-evidence VERIF_REPLAY_DIR=/verif/.work/seed-replays
[ -n "$(git -C /repo status --porcelain)" ] && { echo "/repo not clean"; exit 2; }
names="$@"; [ -z "$names" ] && names=$(ls seeded)
for n in $names; do
  d=seeded/$n
  checks=$(/venv/bin/python -c "import json;print(' '.join(json.load(open('$d/meta.json'))['detected_by']))")
  if ! git -C /repo apply --check "/verif/$d/patch.diff" 2>/dev/null; then echo "$n APPLY-FAILED"; continue; fi
  git -C /repo apply "/verif/$d/patch.diff"
  res=""
  for c in $checks; do
    out=$(./check "$c" --tier quick 2>&1); rc=$?
    nv=$(echo "$out" | grep -c '^VIOLATION')
    res="$res $c:rc=$rc,viol=$nv"
  done
  git -C /repo checkout -- .
  echo "$n$res"
done
