#!/bin/sh
# usage: tools/rebasetake.sh <seed name>...  -- installs /tmp/rebased/<name>/patch.diff into seeded/<name>/ (or moves the seed to _obsolete/ if OBSOLETE.txt was written) and removes the scratch worktree
cd /verif
for n in "$@"; do
  if [ -f /tmp/rebased/$n/patch.diff ]; then cp /tmp/rebased/$n/patch.diff seeded/$n/patch.diff; [ -f /tmp/rebased/$n/demo.py ] && cp /tmp/rebased/$n/demo.py seeded/$n/demo.py; echo "$n installed"
  elif [ -f /tmp/rebased/$n/OBSOLETE.txt ]; then mkdir -p seeded/_obsolete; git mv seeded/$n seeded/_obsolete/$n; /venv/bin/python -c "
import json; p='seeded/_obsolete/$n/meta.json'; d=json.load(open(p)); d['obsolete']=' '.join(open('/tmp/rebased/$n/OBSOLETE.txt').read().split()); json.dump(d,open(p,'w'),indent=1)"; echo "$n obsolete"
  else echo "$n NOTHING"; fi
  git -C /repo worktree remove --force /tmp/rb-$n 2>/dev/null
done
