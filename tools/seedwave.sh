#!/bin/sh
# usage: tools/seedwave.sh <outdir> <suffixes e.g. "c d"> <CNN>...   -- confirm, run the property's quick check, keep; one line per seed
out=$1; suf=$2; shift 2
cd /verif
for p in "$@"; do
  set -- $suf
  for x in a b; do
    name=$p-$1; shift
    d=$out/$p/$x
    [ -f $d/patch.diff ] || { echo "$name MISSING"; continue; }
    c=$(tools/seedconfirm.sh $d | tail -1)
    if [ "$c" != CONFIRMED ]; then echo "$name $c"; continue; fi
    r=$(tools/seedrun.sh $d $p | head -1)
    rc=$(echo "$r" | sed -n 's/.* rc=\([0-9]*\) .*/\1/p')
    if [ "$rc" = 1 ]; then det=$p; else det=none; fi
    tools/seedkeep.py $d $name $p $det >/dev/null
    echo "$name CONFIRMED detected_by=$det :: $(echo "$r" | cut -c1-260)"
  done
done
