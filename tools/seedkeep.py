#!/venv/bin/python
"""usage: seedkeep.py <srcdir> <name> <property> <detected_by comma list or 'none'> [note]"""
import json, os, shutil, sys
src, name, prop, det = sys.argv[1:5]
note = sys.argv[5] if len(sys.argv) > 5 else ""
dst = os.path.join('/verif/seeded', name)
os.makedirs(dst, exist_ok=True)
for f in ('patch.diff', 'demo.py', 'notes.txt'):
    if os.path.exists(os.path.join(src, f)):
        shutil.copy(os.path.join(src, f), os.path.join(dst, f))
notes = open(os.path.join(src, 'notes.txt')).read() if os.path.exists(os.path.join(src, 'notes.txt')) else ''
meta = {
    "property": prop,
    "source": "independent sub-agent given only the property text and a scratch worktree",
    "needs_to_manifest": notes.strip(),
    "confirmed": "tools/seedconfirm.sh: demo exits 0 on unchanged tree, non-zero with the patch; pytest '27 failed, 313 passed' (baseline) with the patch",
    "ran": "tools/seedrun.sh %s %s (patch applied to /repo, quick checks, reverted)" % (dst, prop),
    "detected_by": [] if det == 'none' else det.split(','),
    "note": note,
}
json.dump(meta, open(os.path.join(dst, 'meta.json'), 'w'), indent=1)
print(dst)
